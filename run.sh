#!/bin/bash
# usage: run.sh <Cxx> <quick|thorough> [--replay file]
# Rebuilds the harness against /repo's current working tree (hooks on: -tags verif) and runs one check.
set -u
cd /verif/harness || exit 2
export GOFLAGS=-mod=mod GOPROXY=off GOSUMDB=off GOTOOLCHAIN=local GOWORK=off CGO_ENABLED=1
export VERIF_TIER="${2:-quick}"
mkdir -p /verif/bin
if ! go build -tags verif -o /verif/bin/mcx ./cmd/mcx 2>/verif/bin/build.log; then
  # a tree that does not compile cannot be checked; this is a harness/build error, not a verdict
  cat /verif/bin/build.log >&2
  echo "BUILD FAILED (harness or /repo does not compile with -tags verif)" >&2
  exit 2
fi
cd /verif
exec /verif/bin/mcx "$@"
