#!/bin/bash
# usage: run.sh <Cxx> <quick|thorough> [--replay file]
# Rebuilds the harness against /repo's current working tree (hooks on: -tags verif) and runs one check.
# VERIF_REPO=<scratch worktree> VERIF_OUT=<dir> run the same check against another tree without touching
# /repo or /verif/evidence (used to try the checks against seeded changes).
set -u
cd /verif/harness || exit 2
export GOFLAGS=-mod=mod GOPROXY=off GOSUMDB=off GOTOOLCHAIN=local GOWORK=off CGO_ENABLED=1
export VERIF_TIER="${2:-quick}"
BIN=/verif/bin/mcx
MODFLAG=""
if [ -n "${VERIF_REPO:-}" ] && [ "$VERIF_REPO" != /repo ]; then
  : "${VERIF_OUT:?VERIF_OUT must be set together with VERIF_REPO}"
  mkdir -p "$VERIF_OUT"
  sed "s#=> /repo/#=> $VERIF_REPO/#" go.mod > "$VERIF_OUT/go.mod"
  cp go.sum "$VERIF_OUT/go.sum"
  export VERIF_MODFILE="$VERIF_OUT/go.mod"
  MODFLAG="-modfile=$VERIF_MODFILE"
  BIN="$VERIF_OUT/mcx"
fi
mkdir -p /verif/bin
if ! go build $MODFLAG -tags verif -o "$BIN" ./cmd/mcx 2>"$BIN.build.log"; then
  # a tree that does not compile cannot be checked; this is a harness/build error, not a verdict
  cat "$BIN.build.log" >&2
  echo "BUILD FAILED (harness or the tree under test does not compile with -tags verif)" >&2
  exit 2
fi
cd /verif
exec "$BIN" "$@"
