#!/usr/bin/env python3
"""c16_read.py <dir> [shard n_shards]: read every *.mcap in <dir> with the repository's Python readers and print
one JSON line per file. Used by check C16 (Go -> Python)."""
import sys, os, json, io
sys.path.insert(0, os.environ.get('VERIF_REPO', '/repo') + '/python/mcap')
from mcap.stream_reader import StreamReader
from mcap.reader import SeekingReader
from mcap import records as R

def rec(r):
    t = type(r).__name__
    if isinstance(r, R.Header):
        return {"t": t, "profile": r.profile, "library": r.library}
    if isinstance(r, R.Schema):
        return {"t": t, "id": r.id, "name": r.name, "encoding": r.encoding, "data": bytes(r.data).hex()}
    if isinstance(r, R.Channel):
        return {"t": t, "id": r.id, "schema_id": r.schema_id, "topic": r.topic, "enc": r.message_encoding, "metadata": dict(r.metadata)}
    if isinstance(r, R.Message):
        return {"t": t, "channel_id": r.channel_id, "sequence": r.sequence, "log_time": str(r.log_time), "publish_time": str(r.publish_time), "data": bytes(r.data).hex()}
    if isinstance(r, R.Attachment):
        return {"t": t, "log_time": str(r.log_time), "create_time": str(r.create_time), "name": r.name, "media_type": r.media_type, "data": bytes(r.data).hex()}
    if isinstance(r, R.Metadata):
        return {"t": t, "name": r.name, "metadata": dict(r.metadata)}
    if isinstance(r, R.Statistics):
        return {"t": t, "message_count": str(r.message_count), "schema_count": r.schema_count, "channel_count": r.channel_count,
                "attachment_count": r.attachment_count, "metadata_count": r.metadata_count, "chunk_count": r.chunk_count,
                "start": str(r.message_start_time), "end": str(r.message_end_time),
                "per_channel": {str(k): str(v) for k, v in r.channel_message_counts.items()}}
    return None

def guarded(f):
    try:
        return {"ok": f()}
    except Exception as e:  # noqa
        return {"error": type(e).__name__ + ": " + str(e)[:200]}

def triple(t):
    s, c, m = t
    return {"schema": None if s is None else s.id, "channel": c.id, "topic": c.topic, "m": rec(m)}

def read_one(path):
    data = open(path, 'rb').read()
    out = {"file": os.path.basename(path)}
    def stream():
        res = []
        after_data_end = False
        for r in StreamReader(io.BytesIO(data), validate_crcs=True).records:
            if isinstance(r, R.DataEnd):
                after_data_end = True
            j = rec(r)
            if j is not None and (not after_data_end or isinstance(r, R.Statistics)):
                res.append(j)
        return res
    out["stream"] = guarded(stream)
    def mk():
        return SeekingReader(io.BytesIO(data), validate_crcs=True)
    out["header"] = guarded(lambda: rec(mk().get_header()))
    def summ():
        s = mk().get_summary()
        if s is None:
            return None
        return {"stats": None if s.statistics is None else rec(s.statistics), "channels": len(s.channels), "schemas": len(s.schemas),
                "chunk_indexes": len(s.chunk_indexes), "attachment_indexes": len(s.attachment_indexes), "metadata_indexes": len(s.metadata_indexes)}
    out["summary"] = guarded(summ)
    out["file_order"] = guarded(lambda: [triple(t) for t in mk().iter_messages(log_time_order=False)])
    out["log_order"] = guarded(lambda: [triple(t) for t in mk().iter_messages(log_time_order=True)])
    out["reverse"] = guarded(lambda: [triple(t) for t in mk().iter_messages(log_time_order=True, reverse=True)])
    out["attachments"] = guarded(lambda: [rec(a) for a in mk().iter_attachments()])
    out["metadata"] = guarded(lambda: [rec(m) for m in mk().iter_metadata()])
    return out

def main():
    d = sys.argv[1]
    shard, n = (int(sys.argv[2]), int(sys.argv[3])) if len(sys.argv) > 3 else (0, 1)
    files = sorted(f for f in os.listdir(d) if f.endswith('.mcap'))
    w = sys.stdout
    for i, f in enumerate(files):
        if i % n != shard:
            continue
        w.write(json.dumps(read_one(os.path.join(d, f))) + "\n")

main()
