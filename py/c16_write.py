#!/usr/bin/env python3
"""c16_write.py <spec.jsonl> <outdir> [shard n_shards]: write one MCAP file per spec line with the repository's
Python writer; prints one JSON line per file with the ids Python assigned and Python's own stream-read of the
file. Used by check C16 (Python -> Go)."""
import sys, os, json, io
sys.path.insert(0, os.environ.get('VERIF_REPO', '/repo') + '/python/mcap')
from mcap.writer import Writer, IndexType, CompressionType
from mcap.stream_reader import StreamReader
from mcap import records as R

IDX = {"ATTACHMENT": IndexType.ATTACHMENT, "CHUNK": IndexType.CHUNK, "MESSAGE": IndexType.MESSAGE, "METADATA": IndexType.METADATA}

def main():
    spec, outdir = sys.argv[1], sys.argv[2]
    shard, n = (int(sys.argv[3]), int(sys.argv[4])) if len(sys.argv) > 4 else (0, 1)
    for i, line in enumerate(open(spec)):
        if i % n != shard:
            continue
        s = json.loads(line)
        o = s["options"]
        it = IndexType.NONE
        for name in o["index_types"]:
            it |= IDX[name]
        res = {"name": s["name"]}
        try:
            buf = io.BytesIO()
            w = Writer(buf, chunk_size=o["chunk_size"], compression=CompressionType.NONE, index_types=it,
                       repeat_channels=o["repeat_channels"], repeat_schemas=o["repeat_schemas"], use_chunking=o["use_chunking"],
                       use_statistics=o["use_statistics"], use_summary_offsets=o["use_summary_offsets"],
                       enable_crcs=o["enable_crcs"], enable_data_crcs=o["enable_data_crcs"])
            w.start(profile=s["profile"], library=s["library"])
            schema_ids, channel_ids = [], []
            for op in s["ops"]:
                k = op["k"]
                if k == "schema":
                    schema_ids.append(w.register_schema(op["name"], op["encoding"], bytes.fromhex(op["data"])))
                elif k == "channel":
                    sid = 0 if op["schema"] < 0 else schema_ids[op["schema"]]
                    channel_ids.append(w.register_channel(op["topic"], op["enc"], sid, op["metadata"]))
                elif k == "message":
                    w.add_message(channel_ids[op["channel"]], int(op["log_time"]), bytes.fromhex(op["data"]), int(op["publish_time"]), op["sequence"])
                elif k == "attachment":
                    w.add_attachment(int(op["create_time"]), int(op["log_time"]), op["name"], op["media_type"], bytes.fromhex(op["data"]))
                elif k == "metadata":
                    w.add_metadata(op["name"], op["metadata"])
            w.finish()
            data = buf.getvalue()
            open(os.path.join(outdir, s["name"] + ".mcap"), "wb").write(data)
            res["schema_ids"], res["channel_ids"] = schema_ids, channel_ids
            # what Python itself reads back from its file (which schema/channel records it actually emitted)
            emitted_s, emitted_c = set(), set()
            in_data = True
            res["py_stats"] = None
            selfread(res, data, emitted_s, emitted_c)
            res["emitted_schemas"], res["emitted_channels"] = sorted(emitted_s), sorted(emitted_c)
        except Exception as e:  # noqa
            res["error"] = type(e).__name__ + ": " + str(e)[:200]
        sys.stdout.write(json.dumps(res) + "\n")

def selfread(res, data, emitted_s, emitted_c):
    """what Python itself reads back from its file; a failure of Python's own reader is recorded, not fatal"""
    in_data = True
    for validate in (True, False):
        try:
            emitted_s.clear(); emitted_c.clear(); in_data = True
            for r in StreamReader(io.BytesIO(data), validate_crcs=validate).records:
                    if isinstance(r, R.DataEnd):
                        in_data = False
                    if in_data and isinstance(r, R.Schema):
                        emitted_s.add(r.id)
                    if in_data and isinstance(r, R.Channel):
                        emitted_c.add(r.id)
                    if isinstance(r, R.Statistics):
                        res["py_stats"] = {"message_count": str(r.message_count), "schema_count": r.schema_count, "channel_count": r.channel_count,
                            "attachment_count": r.attachment_count, "metadata_count": r.metadata_count, "chunk_count": r.chunk_count,
                            "start": str(r.message_start_time), "end": str(r.message_end_time),
                            "per_channel": {str(k): str(v) for k, v in r.channel_message_counts.items()}}
            return
        except Exception as e:  # noqa
            if validate:
                res["py_self_read_error"] = type(e).__name__ + ": " + str(e)[:160]
            else:
                raise


main()
