#!/bin/bash
# Run once after a fresh restore, offline: warms the Go build cache by building the harness.
set -e
cd /verif/harness
export GOFLAGS=-mod=mod GOPROXY=off GOSUMDB=off GOTOOLCHAIN=local GOWORK=off CGO_ENABLED=1
mkdir -p /verif/bin /verif/evidence /verif/replays
go build -tags verif -o /verif/bin/mcx ./cmd/mcx
echo "setup ok"
