#!/bin/bash
# Run once after a fresh restore, offline: warms the Go build cache by building the harness.
set -e
cd /verif/harness
export GOFLAGS=-mod=mod GOPROXY=off GOSUMDB=off GOTOOLCHAIN=local GOWORK=off CGO_ENABLED=1
mkdir -p /verif/bin /verif/evidence /verif/replays
go build -tags verif -o /verif/bin/mcx ./cmd/mcx
# warm the build cache for the specially built binaries of C13 (race-instrumented child, map-order tool)
go build -race -tags verif -o /verif/bin/mcxrace ./cmd/mcxrace
go build -o /verif/bin/maprewrite ./cmd/maprewrite
echo "setup ok"
