#!/bin/bash
# wave8.sh <Cxx>: confirm the two wave-8 changes of a sub-agent (/tmp/seed8/<Cxx>/_seed) as seeds 11 and 12,
# then run the property's own check (quick tier) against each in a scratch worktree.
id=$1
for n in 1 2; do
  o=$((n+10))
  [ -f /tmp/seed8/$id/_seed/patch$n.diff ] || { echo "$id-$o: no patch$n.diff"; continue; }
  SEED_SRC=/tmp/seed8/$id/_seed SEED_OUT_N=$o /verif/tools/confirm_seed.sh $id $n
  /verif/tools/mutant_run.sh $id-$o $id | tee -a /tmp/seed8/results8.tsv
done
