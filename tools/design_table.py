#!/usr/bin/env python3
"""Rewrites the seed table at the end of DESIGN.md section 10.5 from /verif/seeded/*/meta.json."""
import json, glob, os, re
rows = []
for d in sorted(glob.glob('/verif/seeded/C*-*')):
    m = json.load(open(d + '/meta.json'))
    own = m['checks'].get(m['breaks_property'], {})
    sig = re.sub(r' \(\d+ exec.*', '', own.get('signature', '').replace('sig=', ''))[:70]
    change = re.sub(r'^(go|python)/\S+ ', '', m.get('what_the_change_does', ''))
    rows.append('| %s | %s | %s | `%s` |' % (m['seed'], ', '.join(os.path.basename(f) for f in m['files_touched'])[:40], change[:150].replace('|', '/'), sig.replace('|', '/')))
tab = '| seed | file | change (abridged; full text in meta.json) | caught by its own check with signature |\n|---|---|---|---|\n' + '\n'.join(rows) + '\n'
p = '/verif/DESIGN.md'
s = open(p).read()
i = s.index('| seed | file | change (abridged')
open(p, 'w').write(s[:i] + tab)
print(len(rows), 'rows')
