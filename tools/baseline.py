#!/usr/bin/env python3
"""Run the repository's pinned test-suite (guard OFF: no -tags verif) and compare with BASELINE.json.
usage: baseline.py [repo_dir]   exit 0 iff every stable_pass test passes."""
import json, subprocess, sys, os
repo = sys.argv[1] if len(sys.argv) > 1 else '/repo'
base = json.load(open('/root/.vp/BASELINE.json'))
want = set(base['stable_pass'])
mods = [l.strip() for l in open('/w/out/gomods.txt') if l.strip()]
passed, failed = set(), set()
env = dict(os.environ)
for k in ('GOFLAGS',):
    env.pop(k, None)
env.update(GOPROXY='off', GOSUMDB='off', GOTOOLCHAIN='local')
for m in mods:
    d = os.path.join(repo, m)
    gw = subprocess.run(['go', 'env', 'GOWORK'], cwd=d, env=env, capture_output=True, text=True).stdout.strip()
    mf = ['-mod=mod'] if gw in ('', 'off') else []
    p = subprocess.run(['go', 'test', *mf, '-json', '-vet=off', '-count=1', '-timeout', '25m', './...'], cwd=d, env=env, capture_output=True, text=True)
    for line in p.stdout.splitlines():
        try:
            ev = json.loads(line)
        except Exception:
            continue
        if 'Test' not in ev:
            continue
        name = ev['Package'] + '::' + ev['Test']
        if ev['Action'] == 'pass':
            passed.add(name)
        elif ev['Action'] == 'fail':
            failed.add(name)
missing = sorted(want - passed)
print(f'baseline: {len(want & passed)}/{len(want)} stable tests pass; {len(missing)} missing')
for m in missing[:40]:
    print('  NOT PASSING:', m)
sys.exit(1 if missing else 0)
