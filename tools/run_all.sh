#!/bin/bash
# run_all.sh [tier]: run every registered check once, print one line each (id, exit code, wall, exhaustive, violations)
tier=${1:-quick}
for i in $(seq -w 1 20); do
  c=C$i
  t0=$(date +%s)
  /verif/run.sh $c $tier > /tmp/run_all_$c.log 2>&1
  rc=$?
  t1=$(date +%s)
  ex=$(python3 -c "import json;e=json.load(open('/verif/evidence/$c.json'));print(e['coverage']['exhaustive'], e['coverage']['evaluations'], e.get('violations'))" 2>/dev/null)
  echo "$c rc=$rc wall=$((t1-t0))s exhaustive/evals/violations=$ex $(grep -c '^KNOWN-FINDING' /tmp/run_all_$c.log) known"
done
