#!/bin/bash
# mutant_run.sh <seed-dir-name> <check ids...>: apply a seeded change in a scratch worktree of /repo and run the
# given checks (quick tier) against that tree; /repo and /verif/evidence are not touched. Prints one line per check:
#   <seed> <check> CAUGHT|missed|error  <first signature>
seed=$1; shift
sd=/verif/seeded/$seed
patch=$sd/patch.diff
[ -f $sd/patch.ported.diff ] && patch=$sd/patch.ported.diff
wt=/tmp/mt/$seed
out=/tmp/mt/$seed.out
rm -rf $out; mkdir -p /tmp/mt $out
git -C /repo worktree remove --force $wt >/dev/null 2>&1
git -C /repo worktree add -q --detach $wt HEAD || exit 2
if ! git -C $wt apply $patch 2>$out/apply.err; then
  echo "$seed - error patch-does-not-apply"
  git -C /repo worktree remove --force $wt; exit 0
fi
for c in "$@"; do
  log=$out/$c.log
  VERIF_REPO=$wt VERIF_OUT=$out VERIF_BUDGET_S=${VERIF_BUDGET_S:-120} timeout 1500 /verif/run.sh $c quick > $log 2>&1
  rc=$?
  sig=$(grep -m1 'sig=' $log | sed 's/^ *//' | cut -c1-150)
  if grep -q '^VIOLATION' $log; then echo "$seed $c CAUGHT $sig"
  elif [ $rc -eq 0 ]; then echo "$seed $c missed"
  else echo "$seed $c error rc=$rc $(tail -1 $log | cut -c1-120)"; fi
done
git -C /repo worktree remove --force $wt
rm -rf $out/mcx $out/replays
