#!/usr/bin/env python3
"""Regenerates /verif/MANIFEST.json from the table below (kept in one place so it is always valid)."""
import json, subprocess

HOOK_COMMITS = ["3a82b44", "7d5f6fc"]

# id -> (category, technique, text, note, design_ref)
MC = "model_checking"
FE = "fault_enumeration"
TB = "Trusted: Go toolchain/runtime; harness/ref (from-the-spec codec, pinned by the 416 conformance sha256 values); klauspost/zstd, pierrec/lz4 and hash/crc32 shared with go/mcap. Bounds (depths, alphabets, sizes) are printed in the evidence file; nothing is claimed outside them."
WS = "stateless exhaustive exploration of the real writer/readers over every legal call sequence x configuration sub-product (explore.Choose choice tree, process-sharded)"
CHECKS = {
 "C01": (MC, WS + "; oracle = call-log reference model incl. stability of returned values",
         "Every legal writer call sequence up to the stated depth x exhaustively enumerated configuration sub-products is written by the real writer and read back through 4 lexer variants and the non-indexed iterator in 4 calling modes; every field of every record is compared with the call log, order and channel/schema binding included, and values returned by allocating calls are re-checked after the read; record-length sweeps cross every internal buffer boundary; attachments are supplied through three kinds of io.Reader.", TB, "DESIGN §4 C01"),
 "C02": (MC, WS + "; differential oracle index-based read vs scan, random access through every index entry",
         "Same enumeration; for indexable configurations the file-order indexed sequence must equal the scan element-wise (time orders: permutation), for all others equal-or-error; every attachment/metadata index entry is dereferenced and compared; metadata callback counted on both paths; every sequence of <=3 reader calls (Info, Messages in each mode, random access) on one Reader must return what a fresh Reader returns.", TB, "DESIGN §4 C02"),
 "C03": (MC, "exhaustive enumeration of chunk/timestamp arrangements built by the reference encoder, run through the real indexed iterator",
         "Every file of <=3 chunks x <=3 messages over a 4-value time domain (plus two-channel, compressed and >12-element tie families) is read in file, log-time and reverse order twice; oracle: exactly-once, monotone, file order among same-chunk ties, repeatable - also after any earlier call on the same Reader (reader histories), and under a selection (each single topic, the window cutting off the smallest log time).", TB, "DESIGN §4 C03"),
 "C04": (MC, "exhaustive enumeration of files x windows x option spellings x topic sets x read modes against the model filter",
         "For every small arrangement, every window over the critical time set expressed through each of 9 option spellings, every topic set and 4 read modes must return exactly the messages the model filter selects, also after earlier calls on the same Reader.", TB, "DESIGN §4 C04"),
 "C05": (MC, WS + "; spec validator oracle",
         "Every emitted record, pointer, size and time field of every output file is checked by a decoder/validator written from the specification that shares no code with go/mcap; files re-emitted through the raw-record API (AddSchema/AddChannel/WriteChunkWithIndexes) are validated the same way.", TB + " Leniency: a non-zero summary_offset_start designating an empty section is accepted.", "DESIGN §4 C05"),
 "C06": (MC, WS + "; independent CRC recomputation",
         "Data-section, summary, chunk and attachment CRCs of every produced file are recomputed from the file bytes over the byte ranges the specification defines (zero for the first three when checksums are off).", TB, "DESIGN §4 C06"),
 "C07": (FE, "exhaustive single-bit-flip (and small multi-byte) fault enumeration over chunk payloads and attachment records, real validating lexer",
         "Every single-bit flip of every byte of every chunk's stored records field and of every attachment record's content is applied to written files (none/zstd/lz4) and read with the validating lexer (with and without invalid-chunk tokens): altered data must never be delivered as good; crafted attachment records (cut/hostile header fields, empty data), both orders of the CRC calls, lz4 frames without content checksum and a caller-supplied codec on both sides are included; thorough adds bit pairs, 2-byte overwrites and range swaps.", TB + " An error that errors.Is(io.EOF) with records missing does not count as a report.", "DESIGN §4 C07"),
 "C08": (MC, WS + "; oracle = aggregates of the call log vs Writer.Statistics, statistics record and Info",
         "Writer.Statistics after Close, the statistics record decoded by the reference decoder and Reader.Info must equal the true aggregates of the call log; Info listings must equal the summary groups the file keeps, whatever was called on the Reader before; counts also hold for files re-emitted through the raw-record API.", TB, "DESIGN §4 C08"),
 "C09": (FE, "crash-point enumeration: every truncation position of every small written file, read by lexer and non-indexed iterator",
         "Every prefix 0..len-1 of files (unchunked/none/zstd/lz4, CRC on/off, attachments and metadata between chunks) must read as a prefix of the original records, end with EOF or an error, never panic, and contain every message of every chunk completely before the cut; a lexer without attachment callback is included and a call that does not return is reported (watchdog); files with records above every lexer threshold (100 KiB message, 70 KiB attachment, 66 KiB schema) are cut around every record boundary.", TB, "DESIGN §4 C09"),
 "C10": (MC, "bounded-exhaustive structured mutation (position-exhaustive depth 1 + structural families) through 12 decode entry points in isolated worker processes; thorough adds depth 2 over all pairs of size/offset/count fields",
         "For every byte offset of the seed files and every width 1/2/4/8 each hostile value (and v-1, v+1) is written; records are duplicated/removed/swapped, truncated (body cut by 1..24 bytes with lengths fixed up, also with the trailing length prefix reduced alike), nested into chunks (chunk in chunk, file in chunk) and spliced pairwise; compression names of every length; near-2^31 lengths; every mutant runs through the lexer under 6 option sets (incl. every Parse*), Info+ChannelCounts, 4 iterator modes and random access inside workers with capped address space, stack, per-call stall deadline and allocation accounting: outcome must be ok or error.", TB + " quick defers mutants that legitimately allocate up to the documented 2 GiB ceiling to thorough.", "DESIGN §4 C10"),
 "C11": (MC, "exhaustive enumeration of unknown-record insertion positions and record tails on reference-encoded files, differential against the un-augmented file",
         "An unknown record (4 opcodes x 4 lengths) at every legal position (top level, inside chunks, summary boundaries), at all positions at once, and tails on every extensible record kind must leave everything the Go readers report unchanged, and every top-level record parsed by the library's Parse* functions must equal the reference decoder's reading of the same body.", TB, "DESIGN §4 C11"),
 "C12": (MC, "exhaustive enumeration of legal layouts of fixed logical contents by the reference encoder, read by all Go readers",
         "Chunk partitions (incl. empty chunks), per-chunk compression, schema/channel placement, all 720 summary group orders and all 256 optional-section subsets (all pairs of dimensions in quick, full product for small contents in thorough): every reader (incl. a default read restricted to each topic) must return the logical content; summaries that do not repeat schema/channel records may make index-based reads refuse, never return a silent subset.", TB, "DESIGN §4 C12"),
 "C13": (MC, "exhaustive map-range permutation (overlay rewrite regenerated from the tree) + exhaustive instance interleavings under a cooperative scheduler (preemption-bounded) + GOMAXPROCS subprocess sweep; free-running -race pass as supporting evidence",
         "(a) every permutation of every map range reached by the workloads (incl. keys a sloppy comparator ties; deviation bound 2) must leave the output bytes unchanged; (a2) package-level state the library modifies is located with go/types and, if any exists, all interleavings of two colliding writers at every statement that can reach it are explored (0 sites on the current tree); (b) every interleaving of 2 [3] independent writer/lexer instances at API-call, sink-write and source-read granularity with at most 2 preemptions must give each instance its solo result; (c) 45 configurations give the same digest under GOMAXPROCS 1, 2, 4, 16; (d) 16 free-running goroutines under the race detector (a different technique, supporting only); (e) every sequence of <=3 writers in one process with fresh or reused argument objects must reproduce the digest of a fresh process.", TB + " The map-range rewrite is assumed semantics-preserving for any fixed order; interleavings finer than library-to-caller calls are only covered by (d).", "DESIGN §4 C13"),
 "C14": (FE, "deviation-bounded exhaustive sink/attachment-source fault enumeration on the real writer",
         "Every destination Write call of every workload x configuration is failed in turn (error / short count / ErrShortWrite, transient and sticky): the call it hits must return an error, nothing may panic, accepted bytes must stay a prefix of the fault-free output (checked after every write); every attachment source failure/early/late end must be reported.", TB + " Contract-violating sinks (short count, nil error) are out of scope.", "DESIGN §4 C14"),
 "C15": (FE, "exhaustive delivery-policy and source-error enumeration on the real lexer/iterators/Info",
         "Every file x 7 readers x {full, 1-byte, halving, 7-byte, data+EOF, a short read at every k-th Read} and an injected non-EOF error at every byte position / k-th Seek (sticky and one-shot): results must not depend on delivery, and after an error the results are a prefix ending in a non-EOF error.", TB, "DESIGN §4 C15"),
 "C16": (MC, "exhaustive enumeration of workloads x writer option sets in both directions, cross-implementation differential with python3 subprocesses",
         "Go->Python: every call sequence at the stated depth x all 3072 uncompressed Go configurations (plus deeper workloads under 16 flag settings) read by the repository's Python StreamReader and SeekingReader with CRC validation; Python->Go: the Python Writer under all 6144 option sets (plus deeper workloads under reduced options) read by the Go lexer, iterators, Info and random access; oracle = the call log on the writing side.", TB + " python3 with /repo/python/mcap on sys.path; compression NONE only (zstandard/lz4 are not installed for Python).", "DESIGN §4 C16"),
 "C17": (MC, "complete enumeration of the finite conformance matrix (416 vectors), tools rebuilt from the tree",
         "All 416 expectations: binaries regenerated by the reference encoder and pinned by the LFS sha256; read tool streamed on all, indexed on the admitted variants, write tool byte-exact on the 208 non-padded ones.", TB, "DESIGN §4 C17"),
 "C18": (MC, "exhaustive enumeration of generated bags and SQLite databases plus truncation/field-mutation corruptions, converted in isolated worker processes and decoded by the reference decoder",
         "Every generated bag (connection id sets, shared/distinct type+md5, message variants, every chunk partition x per-chunk compression, repeated connection records, unchunked, 3 writer configurations) and database (topic/type combinations incl. non-message types, QoS column, equal timestamps) at the stated scope must convert to a valid MCAP with every message in order and the right channels/schemas; valid bags whose record parts cross the converter's buffer sizes (1 KiB / 1 MiB and twice those) must convert exactly; every truncation and positional field mutation of a bag must yield an error, never a panic, process exit, fatal error or stall.", TB + " The harness' bag encoder follows the ROS bag v2.0 specification and is cross-checked against go-rosbag's readers on every bag; a second family of bags is written by go-rosbag's writer; SQLite via the cached go-sqlite3 driver.", "DESIGN §4 C18"),
 "C19": (MC, "exhaustive enumeration of small type graphs, short strings and definition mutations in isolated worker processes",
         "Every type graph at the stated scope (incl. cyclic) must parse to the generating tree (acyclic) and every input - all strings up to length L over a 9-symbol alphabet and over the separator/marker alphabet, all single-token mutations incl. markers without a type name; deep and wide graphs (all 16 primitives, chains to depth 5, diamonds, homonyms in two packages) - must return ok/error inside a worker with capped address space and stack, never die or stall.", TB, "DESIGN §4 C19"),
 "C20": (MC, "exhaustive small arrangements plus deterministic large families with the verif slot hook; attachment streaming measured in an idle worker",
         "After every NextInto the hook-reported chunk slots must stay within the model's overlap depth (1 in file order) for every <=3x3 arrangement and for N in {10,100,1000} x depth 1..8 x 3 shapes; buffers bounded by the largest chunk; attachments up to 16 MiB/256 MiB stream through writer, lexer and iterator in constant memory.", TB + " Memory oracles use generous fixed slack and no time component.", "DESIGN §4 C20"),
}

ALL = ["C%02d" % i for i in range(1, 21)]
NOT_YET = "check not built yet in this session (planned, see DESIGN §7a build order); not claimed until its check exists and passes"

def main():
    checks = []
    for pid in ALL:
        if pid not in CHECKS:
            continue
        cat, tech, text, note, ref = CHECKS[pid]
        checks.append({
            "property_id": pid,
            "quick_cmd": f"./run.sh {pid} quick",
            "thorough_cmd": f"./run.sh {pid} thorough",
            "evidence_file": f"/verif/evidence/{pid}.json",
            "replay_cmd_template": f"./run.sh {pid} quick --replay {{path}}",
            "engine": "mcx",
            "level_claimed": {"category": cat, "text": text, "design_ref": ref},
            "level_note": note,
            "technique": tech,
        })
    m = {
        "version": 1,
        "setup_cmd": "./setup.sh",
        "hooks": {
            "guard": "verif",
            "enable": "go build -tags verif (harness module /verif/harness replaces github.com/foxglove/mcap/go/{mcap,ros} with /repo/go/{mcap,ros})",
            "baseline_off_cmd": "python3 /verif/tools/baseline.py /repo",
            "source_commits": HOOK_COMMITS,
            "add_only": True,
        },
        "engines": [{
            "name": "mcx", "path": "/verif/harness",
            "serves_properties": [c["property_id"] for c in checks],
            "kind_free_text": "hand-written stateless deviation-bounded exhaustive explorer (explore.Choose choice trees, process-sharded), fault-injecting environment, isolated workers, from-the-spec reference codec",
        }],
        "checks": checks,
        "not_applicable": [{"property_id": p, "reason": NOT_YET} for p in ALL if p not in CHECKS],
        "notes": "All checks rebuild the harness against /repo's working tree on every run (run.sh). Known findings: /verif/known_findings.json.",
    }
    json.dump(m, open('/verif/MANIFEST.json', 'w'), indent=1)
    print("MANIFEST.json:", len(checks), "checks,", len(m["not_applicable"]), "not applicable")

main()
