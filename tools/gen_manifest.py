#!/usr/bin/env python3
"""Regenerates /verif/MANIFEST.json from the table below (kept in one place so it is always valid)."""
import json, subprocess

HOOK_COMMITS = ["3a82b44"]

# id -> (category, technique, text, note, design_ref)
CHECKS = {
 "C05": ("model_checking", "stateless exhaustive exploration of writer call sequences x configurations, spec validator oracle",
         "Every legal writer call sequence up to the stated depth over the DESIGN §3 alphabets, times exhaustively enumerated sub-products of the writer configuration (all 1024 flag combinations x CRC x chunk modes; compression x level x custom codec), is run on the real writer; every emitted record, pointer, size and time field of every output file is checked by a decoder/validator written from the specification that shares no code with go/mcap. Bounded-exhaustive: holds for all executions inside the bounds, says nothing beyond them.",
         "Trusted: harness/ref (from-the-spec codec), klauspost/zstd and pierrec/lz4 for chunk payloads, Go toolchain. Bounds: operation depth and alphabets as printed in the evidence file.", "DESIGN §4 C05"),
 "C06": ("model_checking", "stateless exhaustive exploration of writer call sequences x configurations, independent CRC recomputation",
         "Same enumeration as C05; the data-section, summary, chunk and attachment CRC of every produced file are recomputed from the file bytes over the byte ranges the specification defines and compared (must be zero for the first three when checksums are off).",
         "Trusted: hash/crc32, harness/ref. Bounds as printed in the evidence file.", "DESIGN §4 C06"),
}

ALL = ["C%02d" % i for i in range(1, 21)]
NOT_YET = "check not built yet in this session (planned, see DESIGN §7a build order); not claimed until its check exists and passes"

def main():
    checks = []
    for pid in ALL:
        if pid not in CHECKS:
            continue
        cat, tech, text, note, ref = CHECKS[pid]
        checks.append({
            "property_id": pid,
            "quick_cmd": f"./run.sh {pid} quick",
            "thorough_cmd": f"./run.sh {pid} thorough",
            "evidence_file": f"/verif/evidence/{pid}.json",
            "replay_cmd_template": f"./run.sh {pid} quick --replay {{path}}",
            "engine": "mcx",
            "level_claimed": {"category": cat, "text": text, "design_ref": ref},
            "level_note": note,
            "technique": tech,
        })
    m = {
        "version": 1,
        "setup_cmd": "./setup.sh",
        "hooks": {
            "guard": "verif",
            "enable": "go build -tags verif (harness module /verif/harness replaces github.com/foxglove/mcap/go/{mcap,ros} with /repo/go/{mcap,ros})",
            "baseline_off_cmd": "python3 /verif/tools/baseline.py /repo",
            "source_commits": HOOK_COMMITS,
            "add_only": True,
        },
        "engines": [{
            "name": "mcx", "path": "/verif/harness",
            "serves_properties": [c["property_id"] for c in checks],
            "kind_free_text": "hand-written stateless deviation-bounded exhaustive explorer (explore.Choose choice trees, process-sharded), fault-injecting environment, isolated workers, from-the-spec reference codec",
        }],
        "checks": checks,
        "not_applicable": [{"property_id": p, "reason": NOT_YET} for p in ALL if p not in CHECKS],
        "notes": "All checks rebuild the harness against /repo's working tree on every run (run.sh). Known findings: /verif/known_findings.json.",
    }
    json.dump(m, open('/verif/MANIFEST.json', 'w'), indent=1)
    print("MANIFEST.json:", len(checks), "checks,", len(m["not_applicable"]), "not applicable")

main()
