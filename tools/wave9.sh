#!/bin/bash
# wave9.sh <Cxx> <N>: confirm the single wave-9 change of a sub-agent (/tmp/seed9/<Cxx>/_seed) as seed <N>,
# then run the property's own check (quick tier) against it in a scratch worktree.
id=$1
for n in 1; do
  o=${2:?out number}
  [ -f /tmp/seed9/$id/_seed/patch$n.diff ] || { echo "$id-$o: no patch$n.diff"; continue; }
  SEED_SRC=/tmp/seed9/$id/_seed SEED_OUT_N=$o /verif/tools/confirm_seed.sh $id $n
  /verif/tools/mutant_run.sh $id-$o $id | tee -a /tmp/seed9/$id.result
done
