#!/usr/bin/env python3
"""Writes /verif/seeded/<id>/meta.json for every seeded change and /verif/seeded/RESULTS.md from the
result lines of tools/mutant_run.sh collected in /verif/seeded/results.tsv (seed check verdict signature)."""
import json, os, re, glob
root = '/verif/seeded'
res = {}
if os.path.exists(root + '/results.tsv'):
    for l in open(root + '/results.tsv'):
        p = l.rstrip('\n').split(' ', 3)
        if len(p) >= 3 and p[1] != '-':
            res.setdefault(p[0], {})[p[1]] = (p[2], p[3] if len(p) > 3 else '')
NEEDS = json.load(open(root + '/needs.json')) if os.path.exists(root + '/needs.json') else {}
rows = []
for d in sorted(glob.glob(root + '/C*-*')):
    name = os.path.basename(d)
    prop = name.split('-')[0]
    patch = open(d + '/patch.diff').read()
    files = sorted(set(re.findall(r'^\+\+\+ b/(\S+)', patch, re.M)))
    notes = open(d + '/notes.md').read() if os.path.exists(d + '/notes.md') else ''
    conf = open(d + '/confirm.log').read().strip().splitlines()[-1] if os.path.exists(d + '/confirm.log') else ''
    needs = ''
    m = re.search(r'(?is)(needs?|manifest|trigger)[^\n]*\n(.{0,600})', notes)
    meta = {
        'seed': name, 'breaks_property': prop, 'files_touched': files,
        'ported_to_current_tree': os.path.exists(d + '/patch.ported.diff'),
        'what_the_change_does': NEEDS.get(name, {}).get('change', 'see notes.md'),
        'what_it_needs_to_manifest': NEEDS.get(name, {}).get('needs', 'see notes.md (section for change %s)' % name.split('-')[1]),
        'confirmation': conf,
        'what_was_run': 'tools/confirm_seed.sh %s %s (patch applies; repository stable tests pass with it; demo passes on the pristine tree and fails with the change); tools/mutant_run.sh %s <checks>' % (prop, name.split('-')[1], name),
        'checks': {c: {'verdict': v, 'signature': s} for c, (v, s) in sorted(res.get(name, {}).items())},
    }
    json.dump(meta, open(d + '/meta.json', 'w'), indent=1)
    own = res.get(name, {}).get(prop, ('not run', ''))
    others = ', '.join('%s:%s' % (c, v) for c, (v, s) in sorted(res.get(name, {}).items()) if c != prop)
    rows.append('| %s | %s | %s | %s | %s |' % (name, ', '.join(os.path.basename(f) for f in files), own[0], own[1].replace('|', '/')[:90], others))
open(root + '/RESULTS.md', 'w').write('# Seeded changes vs checks (quick tier, scratch worktree, `tools/mutant_run.sh`)\n\n| seed | files | own check | signature | other checks |\n|---|---|---|---|---|\n' + '\n'.join(rows) + '\n')
print(len(rows), 'seeds')
