#!/bin/bash
# confirm_seed.sh <Cxx> <n>: confirm a sub-agent's seeded change in a scratch worktree of /repo:
#  (1) the patch applies, (2) the repository's stable tests still pass with it, (3) the demo passes
#  on the pristine tree and fails with the patch. Writes /verif/seeded/<Cxx>-<n>/{patch.diff,demo*,notes.md,confirm.log}
id=$1; n=$2
# optional: SEED_SRC=<dir with patchN.diff/demoN_test.go/notes.md> SEED_OUT_N=<number used in /verif/seeded/<id>-<N>>
src=${SEED_SRC:-/tmp/seed/$id/_seed}
outn=${SEED_OUT_N:-$n}
out=/verif/seeded/$id-$outn
wt=/tmp/confirm/$id-$outn
mkdir -p $out /tmp/confirm
cp $src/patch$n.diff $out/patch.diff
cp $src/demo$n* $out/ 2>/dev/null
cp $src/notes.md $out/notes.md 2>/dev/null
log=$out/confirm.log; : > $log
git -C /repo worktree remove --force $wt >/dev/null 2>&1
git -C /repo worktree add -q --detach $wt HEAD || exit 2
demo=$(ls $src/demo$n*_test.go 2>/dev/null | head -1)
case $id in
  C17) if grep -q "test-write-conformance\|jsonToMCAP\|WriteMatrix\|Writer" $demo 2>/dev/null && ! grep -q "readStreamed\|ReadMatrix" $demo; then dir=go/conformance/test-write-conformance; else dir=go/conformance/test-read-conformance; fi;;
  C18) dir=go/ros;;
  C19) dir=go/ros/ros1msg;;
  *) dir=go/mcap;;
esac
export GOPROXY=off GOSUMDB=off GOTOOLCHAIN=local; unset GOFLAGS
rundemo() { (cd $wt/$dir && timeout 900 go test -tags "$TAGS" -vet=off -count=1 -run 'Seed|Demo' . 2>&1 | tail -15); }
TAGS=""
[ $id = C20 ] && TAGS=verif
cp $demo $wt/$dir/
echo "== demo on pristine tree ($dir)" >> $log
rundemo >> $log; pristine=$(tail -3 $log | grep -c '^ok')
(cd $wt && git apply $out/patch.diff) || { echo "PATCH DOES NOT APPLY" >> $log; echo "$id-$outn: patch does not apply"; exit 1; }
echo "== demo with the change" >> $log
rundemo >> $log; mutated=$(tail -3 $log | grep -c '^FAIL')
rm -f $wt/$dir/$(basename $demo)
echo "== repository baseline tests with the change (guard off)" >> $log
python3 /verif/tools/baseline.py $wt >> $log 2>&1; base=$?
git -C /repo worktree remove --force $wt
echo "$id-$outn: demo_pristine_ok=$pristine demo_mutant_fails=$mutated baseline_rc=$base" | tee -a $log
