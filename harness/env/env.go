// Package env is the fault-injecting environment: sinks and sources whose every answer is a
// choice point of the explorer.
package env

import (
	"errors"
	"io"

	"verif/harness/explore"
)

// ErrSink and ErrSource are the injected errors; neither wraps io.EOF.
var ErrSink = errors.New("injected sink failure")
var ErrSource = errors.New("injected source failure")

// FaultSink is an io.Writer that logs every Write and lets the explorer fail one of them.
type FaultSink struct {
	X        *explore.Ctx
	Data     []byte // bytes accepted so far
	Writes   int    // number of Write calls
	FaultAt  int    // index of the call that was failed (-1 = none)
	Answer   int
	Sticky   bool
	InjectOn bool // when false the sink never fails (fault-free reference run)
	// AfterWrite, if set, is called after every successful write (used for the prefix invariant).
	AfterWrite func(s *FaultSink)
}

func NewFaultSink(x *explore.Ctx, inject bool) *FaultSink {
	return &FaultSink{X: x, FaultAt: -1, InjectOn: inject}
}

// Write answers: 0 ok | 1 (0,err) | 2 (len/2,err) | 3 (len-1, io.ErrShortWrite).
// Contract-violating answers (short count with nil error) are deliberately not generated.
func (s *FaultSink) Write(p []byte) (int, error) {
	k := s.Writes
	s.Writes++
	if s.FaultAt >= 0 {
		if s.Sticky {
			return 0, ErrSink
		}
		s.Data = append(s.Data, p...)
		return len(p), nil
	}
	ans := 0
	if s.InjectOn {
		ans = s.X.Choose("fault", 4)
	}
	if ans == 0 {
		s.Data = append(s.Data, p...)
		if s.AfterWrite != nil {
			s.AfterWrite(s)
		}
		return len(p), nil
	}
	s.FaultAt, s.Answer = k, ans
	s.Sticky = s.X.Choose("faultmode", 2) == 1
	switch ans {
	case 1:
		return 0, ErrSink
	case 2:
		n := len(p) / 2
		s.Data = append(s.Data, p[:n]...)
		return n, ErrSink
	default:
		n := len(p) - 1
		if n < 0 {
			n = 0
		}
		s.Data = append(s.Data, p[:n]...)
		return n, io.ErrShortWrite
	}
}

// Policy is a uniform delivery policy of a source.
type Policy int

const (
	PFull Policy = iota
	POneByte
	PHalving
	PSeven
	PDataEOF   // the final read returns data together with io.EOF
	PDeviation // every Read call is a choice point: full | 1 byte | n-1 bytes (deviation-bounded)
	NPolicies
)

var PolicyNames = []string{"full", "1-byte", "halving", "7-byte", "data+EOF", "short-read-at-k"}

// FaultSource is an io.Reader / io.ReadSeeker over a byte slice with a delivery policy and an
// optional injected error at a byte position or at the k-th Seek.
type FaultSource struct {
	X      *explore.Ctx
	B      []byte
	Pos    int64
	Policy Policy
	// error injection
	ErrPos   int64 // reads deliver bytes up to ErrPos, then fail (-1 = none)
	ErrSeek  int   // index of the Seek call that fails (-1 = none)
	Sticky   bool
	Fired    int // number of times the injected error was returned
	consumed bool
	Reads    int
	Seeks    int
	Touched  int64 // highest byte position delivered
}

func NewSource(x *explore.Ctx, b []byte, pol Policy) *FaultSource {
	return &FaultSource{X: x, B: b, Policy: pol, ErrPos: -1, ErrSeek: -1}
}

func (s *FaultSource) Read(p []byte) (int, error) {
	s.Reads++
	if len(p) == 0 {
		return 0, nil
	}
	if s.ErrPos >= 0 {
		if s.consumed && s.Sticky {
			s.Fired++
			return 0, ErrSource
		}
		if !s.consumed && s.Pos == s.ErrPos {
			s.consumed = true
			s.Fired++
			return 0, ErrSource
		}
	}
	if s.Pos >= int64(len(s.B)) {
		return 0, io.EOF
	}
	n := len(p)
	rem := int(int64(len(s.B)) - s.Pos)
	if n > rem {
		n = rem
	}
	switch s.Policy {
	case POneByte:
		n = 1
	case PHalving:
		if n > 1 {
			n = (n + 1) / 2
		}
	case PSeven:
		if n > 7 {
			n = 7
		}
	case PDeviation:
		switch s.X.Choose("fault", 3) {
		case 1:
			n = 1
		case 2:
			if n > 1 {
				n--
			}
		}
	}
	// never deliver past the error position in one go: stop right before it
	if s.ErrPos >= 0 && !s.consumed && s.Pos < s.ErrPos && s.Pos+int64(n) > s.ErrPos {
		n = int(s.ErrPos - s.Pos)
	}
	copy(p, s.B[s.Pos:s.Pos+int64(n)])
	s.Pos += int64(n)
	if s.Pos > s.Touched {
		s.Touched = s.Pos
	}
	if s.Policy == PDataEOF && s.Pos == int64(len(s.B)) {
		return n, io.EOF
	}
	return n, nil
}

// Seeker wraps a FaultSource as an io.ReadSeeker (the plain FaultSource is deliberately not one,
// so that the non-seekable code paths are exercised too).
type Seeker struct{ *FaultSource }

func (s Seeker) Seek(off int64, whence int) (int64, error) {
	k := s.Seeks
	s.FaultSource.Seeks++
	if s.ErrSeek >= 0 && (k == s.ErrSeek || s.Sticky && k > s.ErrSeek) {
		s.FaultSource.Fired++
		return 0, ErrSource
	}
	var np int64
	switch whence {
	case io.SeekStart:
		np = off
	case io.SeekCurrent:
		np = s.Pos + off
	case io.SeekEnd:
		np = int64(len(s.B)) + off
	}
	if np < 0 {
		return 0, errors.New("seek before start")
	}
	s.FaultSource.Pos = np
	return np, nil
}

// AttSource generates attachment data from an offset function and can fail or end early/late.
type AttSource struct {
	Data     []byte
	Extra    int // bytes delivered beyond Data (late end)
	EndAt    int // deliver only this many bytes, then EOF (-1 = all)
	FailAt   int // deliver this many bytes, then fail (-1 = never)
	Together bool // return the error together with the last bytes instead of on the next call
	off      int
	Failed   bool
}

func (a *AttSource) Read(p []byte) (int, error) {
	total := len(a.Data) + a.Extra
	if a.EndAt >= 0 {
		total = a.EndAt
	}
	limit := total
	if a.FailAt >= 0 && a.FailAt < limit {
		limit = a.FailAt
	}
	if a.off >= limit {
		if a.FailAt >= 0 && a.off >= a.FailAt {
			a.Failed = true
			return 0, ErrSource
		}
		return 0, io.EOF
	}
	n := len(p)
	if n > limit-a.off {
		n = limit - a.off
	}
	if n > 5 {
		n = 5 // small reads so that position j is reached exactly through several calls
	}
	for i := 0; i < n; i++ {
		k := a.off + i
		if k < len(a.Data) {
			p[i] = a.Data[k]
		} else {
			p[i] = 0xEE
		}
	}
	a.off += n
	if a.Together && a.FailAt >= 0 && a.off >= a.FailAt && a.FailAt <= total {
		a.Failed = true
		return n, ErrSource
	}
	return n, nil
}
