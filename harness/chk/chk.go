// Package chk is the common check runner: phases of exhaustive exploration, known-finding
// matching, replay files, evidence files and exit codes.
package chk

import (
	"encoding/json"
	"fmt"
	"os"
	"path/filepath"
	"runtime"
	"sort"
	"strconv"
	"strings"
	"sync"
	"time"

	"verif/harness/explore"
)

const Root = "/verif"

// Repo is the tree under test: /repo, or a scratch worktree named by VERIF_REPO (used to try the
// checks against seeded changes without touching /repo; run.sh then builds against that tree).
func Repo() string {
	if r := os.Getenv("VERIF_REPO"); r != "" {
		return r
	}
	return "/repo"
}

// OutDir is where evidence and replay files go: /verif, or VERIF_OUT for scratch runs.
func OutDir() string {
	if r := os.Getenv("VERIF_OUT"); r != "" {
		return r
	}
	return Root
}

// Finding is one entry of /verif/known_findings.json.
type Finding struct {
	Property string `json:"property"`
	ID       string `json:"id"`
	Status   string `json:"status"` // "known" | "fixed"
	Sig      string `json:"sig"`
	What     string `json:"what"`
	Commit   string `json:"commit,omitempty"`
}

// Run is the state of one invocation of one check.
type Run struct {
	ID       string
	Tier     string
	Seed     int
	Level    string
	Start    time.Time
	Deadline time.Time
	Workers  int
	Replay   *ReplayFile

	mu          sync.Mutex
	known       []Finding
	evals       int64
	transitions int64
	states      int64
	exhaustive  bool
	phases      []map[string]any
	samples     []any
	outcomes    map[string]int64
	violations  int
	knownHits   map[string]int64
	nontrivial  int64
	rule        []string
	assume      []string
	extra       map[string]any
	harnessErr  []string
	nviol       int
}

// ReplayFile is a recorded violating execution.
type ReplayFile struct {
	Property string   `json:"property"`
	Phase    string   `json:"phase"`
	Choices  []int    `json:"choices"`
	Kinds    []string `json:"kinds,omitempty"`
	Sig      string   `json:"sig"`
	Msg      string   `json:"msg"`
	Detail   any      `json:"detail,omitempty"`
}

func New(id, tier string) *Run {
	r := &Run{ID: id, Tier: tier, Level: "model_checking", Start: time.Now(), Workers: runtime.NumCPU(), exhaustive: true,
		outcomes: map[string]int64{}, knownHits: map[string]int64{}, extra: map[string]any{}}
	if s := os.Getenv("VERIF_SEED"); s != "" {
		r.Seed, _ = strconv.Atoi(s)
	}
	if w := os.Getenv("VERIF_WORKERS"); w != "" {
		r.Workers, _ = strconv.Atoi(w)
	}
	budget := 300 * time.Second
	if tier == "thorough" {
		budget = 12 * time.Minute
	}
	if b := os.Getenv("VERIF_BUDGET_S"); b != "" {
		if n, err := strconv.Atoi(b); err == nil {
			budget = time.Duration(n) * time.Second
		}
	}
	r.Deadline = r.Start.Add(budget)
	if os.Getenv("VERIF_WORKER_PHASE") == "" && os.Getenv("VERIF_ISO_WORKER") == "" && !isReplay() {
		// replay files belong to one run: drop those of earlier runs
		old, _ := filepath.Glob(filepath.Join(OutDir(), "replays", id, "*.json"))
		for _, f := range old {
			_ = os.Remove(f)
		}
	}
	b, err := os.ReadFile(filepath.Join(Root, "known_findings.json"))
	if err == nil {
		var all []Finding
		if err := json.Unmarshal(b, &all); err != nil {
			fmt.Fprintln(os.Stderr, "known_findings.json:", err)
			os.Exit(2)
		}
		for _, f := range all {
			if f.Property == id {
				r.known = append(r.known, f)
			}
		}
	}
	return r
}

func isReplay() bool {
	for _, a := range os.Args {
		if a == "--replay" {
			return true
		}
	}
	return false
}

func (r *Run) Thorough() bool { return r.Tier == "thorough" }

// Rule appends to the human description of how cases are enumerated.
func (r *Run) Rule(s string)   { r.rule = append(r.rule, s) }
func (r *Run) Assume(s string) { r.assume = append(r.assume, s) }
func (r *Run) Extra(k string, v any) {
	r.mu.Lock()
	r.extra[k] = v
	r.mu.Unlock()
}

// PhaseOpts tunes one phase.
type PhaseOpts struct {
	Bound    int
	SplitLen int
	Share    float64 // share of the remaining budget this phase may use (0 = all that is left)
	Cost     explore.CostFn
	InProc   bool // explore inside this process (goroutines) instead of worker processes
	Workers  int  // override the number of workers (0 = default)
	Quiet    bool // run the whole phase inside one otherwise idle worker process (memory oracles)
}

// IsWorker reports whether this process is a shard worker (checks skip expensive setup and all
// output on stdout in that case).
func (r *Run) IsWorker() bool { return os.Getenv("VERIF_WORKER_PHASE") != "" }

// Phase explores body exhaustively within the bound and folds the result into the evidence.
func (r *Run) Phase(name string, body explore.Body, po PhaseOpts) explore.Stats {
	if r.Replay != nil {
		if r.Replay.Phase == name {
			c, v := explore.RunOne(body, r.Replay.Choices)
			fmt.Printf("replay phase=%s choices=%v\n", name, c.Choices())
			if c.Note != nil {
				b, _ := json.Marshal(c.Note())
				fmt.Printf("case: %s\n", b)
			}
			if v == nil {
				fmt.Println("replay verdict: property holds on this execution")
			} else {
				fmt.Printf("replay verdict: VIOLATION sig=%s\n  %s\n", v.Sig, v.Msg)
				r.nviol++
			}
		}
		return explore.Stats{}
	}
	nw := r.Workers
	if po.Workers > 0 {
		nw = po.Workers
	}
	if po.Quiet {
		nw = 1
	}
	eo := explore.Options{Whole: po.Quiet, Bound: po.Bound, Workers: nw, SplitLen: po.SplitLen, Cost: po.Cost, MaxViol: 40, StopOnSig: true}
	if wp := os.Getenv("VERIF_WORKER_PHASE"); wp != "" {
		if wp == name {
			explore.Serve(body, eo, os.Stdin, os.Stdout)
			os.Exit(0)
		}
		return explore.Stats{}
	}
	if only := os.Getenv("VERIF_ONLY_PHASE"); only != "" && !strings.Contains(name, only) {
		return explore.Stats{}
	}
	dl := r.Deadline
	if po.Share > 0 {
		rem := time.Until(r.Deadline)
		if rem > 0 {
			dl = time.Now().Add(time.Duration(float64(rem) * po.Share))
		}
	}
	t0 := time.Now()
	eo.Deadline = dl
	var st explore.Stats
	if po.InProc || os.Getenv("VERIF_INPROC") != "" {
		st = explore.Run(body, eo)
	} else {
		st = explore.RunSharded(body, eo, os.Args, []string{"VERIF_WORKER_PHASE=" + name, "GOMAXPROCS=1"})
	}
	r.Fold(name, st, time.Since(t0), po.Bound)
	return st
}

// Fold merges the statistics of one phase and reports its violations.
func (r *Run) Fold(name string, st explore.Stats, wall time.Duration, bound int) {
	r.mu.Lock()
	defer r.mu.Unlock()
	r.evals += st.Executions
	r.transitions += st.Transitions
	r.states += st.States
	if !st.Exhaustive {
		r.exhaustive = false
	}
	for k, v := range st.Outcomes {
		r.outcomes[name+":"+k] += v
	}
	ph := map[string]any{"phase": name, "executions": st.Executions, "transitions": st.Transitions, "distinct_end_states": st.States,
		"choice_points_by_kind": st.PointsByKind, "max_choice_depth": st.MaxDepth, "deviation_bound_completed": bound,
		"exhaustive": st.Exhaustive, "violating_executions": st.Violations, "wall_s": round(wall.Seconds())}
	if len(st.Outcomes) > 0 {
		ph["outcomes"] = st.Outcomes
	}
	if len(st.Counters) > 0 {
		ph["counters"] = st.Counters
	}
	r.phases = append(r.phases, ph)
	for _, s := range st.Samples {
		if len(r.samples) < 8 {
			r.samples = append(r.samples, map[string]any{"phase": name, "sample": s})
		}
	}
	for _, nd := range st.Nondet {
		r.harnessErr = append(r.harnessErr, "uncaptured nondeterminism: "+nd)
	}
	// group violations by signature
	for _, v := range st.Details {
		r.report(name, v, st.BySig[v.Sig])
	}
}

func (r *Run) matchKnown(sig string) *Finding {
	for i := range r.known {
		if r.known[i].Sig == sig {
			return &r.known[i]
		}
	}
	return nil
}

var printed = map[string]bool{}

func (r *Run) report(phase string, v explore.Violation, count int64) {
	if f := r.matchKnown(v.Sig); f != nil && f.Status == "known" {
		r.knownHits[f.ID] += count
		if !printed[f.ID] {
			printed[f.ID] = true
			fmt.Printf("KNOWN-FINDING: property=%s %s [%s] (%d executions in phase %s)\n", r.ID, f.What, f.ID, count, phase)
		}
		return
	}
	if printed["V:"+v.Sig] {
		return
	}
	printed["V:"+v.Sig] = true
	r.nviol++
	dir := filepath.Join(OutDir(), "replays", r.ID)
	_ = os.MkdirAll(dir, 0o755)
	path := filepath.Join(dir, fmt.Sprintf("%d.json", r.nviol))
	b, _ := json.MarshalIndent(ReplayFile{Property: r.ID, Phase: phase, Choices: v.Choices, Kinds: v.Kinds, Sig: v.Sig, Msg: v.Msg, Detail: v.Detail}, "", " ")
	_ = os.WriteFile(path, b, 0o644)
	fmt.Printf("VIOLATION property=%s replay=%s\n  sig=%s (%d executions)\n  %s\n", r.ID, path, v.Sig, count, v.Msg)
}

// Violation reports a violation found outside an explore phase (e.g. by an isolated worker).
func (r *Run) Violation(phase, sig, msg string, detail any, count int64) {
	r.mu.Lock()
	defer r.mu.Unlock()
	r.report(phase, explore.Violation{Sig: sig, Msg: msg, Detail: detail}, count)
}

// Count adds executions that were run outside explore (isolated workers, subprocess tools).
func (r *Run) Count(name string, evals, transitions, states int64, exhaustive bool, extra map[string]any) {
	r.mu.Lock()
	defer r.mu.Unlock()
	r.evals += evals
	r.transitions += transitions
	r.states += states
	if !exhaustive {
		r.exhaustive = false
	}
	ph := map[string]any{"phase": name, "executions": evals, "transitions": transitions, "distinct_end_states": states, "exhaustive": exhaustive}
	for k, v := range extra {
		ph[k] = v
	}
	r.phases = append(r.phases, ph)
}

// AddExternal folds the evidence written by a sub-run (a specially built binary of the same check)
// into this run. The sub-run has already printed its VIOLATION / KNOWN-FINDING lines.
func (r *Run) AddExternal(path string, exitCode int) {
	b, err := os.ReadFile(path)
	if err != nil {
		r.HarnessError("sub-run wrote no evidence: " + err.Error())
		return
	}
	var ev struct {
		Violations int `json:"violations"`
		Coverage   struct {
			Evaluations int64            `json:"evaluations"`
			States      int64            `json:"states"`
			Transitions int64            `json:"transitions"`
			Exhaustive  bool             `json:"exhaustive"`
			Phases      []map[string]any `json:"phases"`
			Samples     []any            `json:"samples"`
		} `json:"coverage"`
	}
	if err := json.Unmarshal(b, &ev); err != nil {
		r.HarnessError("sub-run evidence unreadable: " + err.Error())
		return
	}
	r.mu.Lock()
	defer r.mu.Unlock()
	r.evals += ev.Coverage.Evaluations
	r.states += ev.Coverage.States
	r.transitions += ev.Coverage.Transitions
	if !ev.Coverage.Exhaustive {
		r.exhaustive = false
	}
	r.phases = append(r.phases, ev.Coverage.Phases...)
	for _, s := range ev.Coverage.Samples {
		if len(r.samples) < 12 {
			r.samples = append(r.samples, s)
		}
	}
	r.nviol += ev.Violations
	if exitCode != 0 && exitCode != 1 {
		r.harnessErr = append(r.harnessErr, fmt.Sprintf("sub-run exited with %d", exitCode))
	}
}

func (r *Run) Sample(s any) {
	r.mu.Lock()
	if len(r.samples) < 12 {
		r.samples = append(r.samples, s)
	}
	r.mu.Unlock()
}

func (r *Run) HarnessError(s string) {
	r.mu.Lock()
	r.harnessErr = append(r.harnessErr, s)
	r.mu.Unlock()
}

// Nontrivial sets the measured number of distinct non-trivial cases (defaults to distinct end states).
func (r *Run) Nontrivial(n int64) { r.nontrivial = n }

// TimeLeft reports whether the internal deadline has not passed yet.
func (r *Run) TimeLeft() bool { return time.Now().Before(r.Deadline) }

func round(f float64) float64 { return float64(int64(f*100)) / 100 }

// Finish writes the evidence file and exits with the check's status.
func (r *Run) Finish() {
	if r.Replay != nil {
		if r.nviol > 0 {
			os.Exit(1)
		}
		os.Exit(0)
	}
	if len(r.harnessErr) > 0 {
		for _, e := range r.harnessErr {
			fmt.Fprintln(os.Stderr, "HARNESS ERROR:", e)
		}
		os.Exit(2)
	}
	nt := r.nontrivial
	if nt == 0 {
		nt = r.states
	}
	if len(r.samples) == 0 {
		r.samples = append(r.samples, "no sample recorded")
	}
	kh := []string{}
	for k, n := range r.knownHits {
		kh = append(kh, fmt.Sprintf("%s x%d", k, n))
	}
	sort.Strings(kh)
	cov := map[string]any{
		"evaluations": r.evals, "distinct_nontrivial": nt, "states": r.states, "transitions": r.transitions,
		"traces_validated_against_impl": r.evals, "exhaustive": r.exhaustive, "rule": join(r.rule), "samples": r.samples,
		"phases": r.phases, "outcome_classes": r.outcomes, "known_findings_hit": kh,
		"explanation": "every execution is a run of the real go/mcap (or go/ros, or conformance tool) code built from /repo's working tree, so traces_validated_against_impl equals evaluations",
	}
	for k, v := range r.extra {
		cov[k] = v
	}
	ev := map[string]any{
		"property_id": r.ID, "tier": r.Tier, "seed": r.Seed, "level": r.Level, "coverage": cov,
		"assumptions": r.assume, "wall_s": round(time.Since(r.Start).Seconds()), "violations": r.nviol,
	}
	if r.assume == nil {
		ev["assumptions"] = []string{}
	}
	b, _ := json.MarshalIndent(ev, "", " ")
	_ = os.MkdirAll(filepath.Join(OutDir(), "evidence"), 0o755)
	evPath := filepath.Join(OutDir(), "evidence", r.ID+".json")
	if alt := os.Getenv("VERIF_EVIDENCE_OUT"); alt != "" {
		evPath = alt // a sub-run (specially built binary) reports to its parent
	}
	if err := os.WriteFile(evPath, b, 0o644); err != nil {
		fmt.Fprintln(os.Stderr, "cannot write evidence:", err)
		os.Exit(2)
	}
	fmt.Printf("%s %s: executions=%d transitions=%d states=%d exhaustive=%v violations=%d known=%v wall=%.1fs\n",
		r.ID, r.Tier, r.evals, r.transitions, r.states, r.exhaustive, r.nviol, kh, time.Since(r.Start).Seconds())
	if r.nviol > 0 {
		os.Exit(1)
	}
	os.Exit(0)
}

func join(s []string) string {
	out := ""
	for i, x := range s {
		if i > 0 {
			out += " | "
		}
		out += x
	}
	return out
}
