// Package iso runs enumerated inputs in isolated worker processes, for properties whose failure
// mode is process death (fatal error: out of memory, stack overflow, os.Exit) or a hang - outcomes
// that cannot be observed from inside the process that suffers them.
//
// The same binary serves as parent and worker: a check calls iso.Run(name, n, fn) in both roles
// with identical arguments. The parent splits [0,n) into batches and hands them to workers started
// under `ulimit -v`; a worker records the index of the input it is about to run in a small progress
// file (one 8-byte pwrite per input), so that when it dies or stalls the parent knows which input
// was in flight. Every death or stall is re-run alone in a fresh worker before it is classified.
package iso

import (
	"bufio"
	"encoding/binary"
	"encoding/json"
	"fmt"
	"os"
	"os/exec"
	"runtime"
	"runtime/debug"
	"runtime/metrics"
	"sort"
	"strings"
	"sync"
	"syscall"
	"time"
	"unsafe"
)

// Outcome of one input, as seen from inside the worker.
type Outcome struct {
	Class string // "ok" | "error" | "panic" | "overalloc"
	Site  string // normalised panic site, or what over-allocated
	Alloc uint64 // bytes allocated while running the input
	Tag   string // free-form label of what was run (entry point), used in signatures
}

// Fn runs input i. It must be deterministic in i and must recover its own panics (use Guard).
type Fn func(i int) []Outcome

// Bad is one non-ok/non-error result.
type Bad struct {
	Index int    `json:"i"`
	Class string `json:"c"` // panic | overalloc | fatal:<kind> | exit:<code> | hang
	Site  string `json:"s"`
	Tag   string `json:"t"`
}

// Result of a whole run.
type Result struct {
	Inputs     int64
	Calls      int64
	ByClass    map[string]int64
	Bad        []Bad
	Exhaustive bool
	Restarts   int
	Recycled   int
	NotRepro   []Bad // deaths that did not reproduce when re-run alone (reported, never violations)
}

type request struct {
	From int `json:"f"`
	To   int `json:"t"`
}

type response struct {
	Next    int              `json:"x,omitempty"` // >0: the worker stopped before this index and asks to be replaced (it holds dirty memory)
	Calls   int64            `json:"n"`
	ByClass map[string]int64 `json:"c"`
	Bad     []Bad            `json:"b"`
}

// StartupLimit bounds the time a worker may take before it serves its first request.
var StartupLimit = 15 * time.Minute

// MaxDeaths is the number of worker deaths/stalls after which a run stops early (exhaustive=false).
const MaxDeaths = 24

// MemLimitKB is the address-space cap of a worker (8 GiB: lets the library's documented 2 GiB
// buffers succeed, kills terabyte requests at once).
const MemLimitKB = 8 << 20

var allocSample = []metrics.Sample{{Name: "/gc/heap/allocs:bytes"}}

// AllocBytes returns the cumulative bytes allocated by the process.
func AllocBytes() uint64 {
	metrics.Read(allocSample)
	return allocSample[0].Value.Uint64()
}

// Guard runs f, converting a panic into an Outcome, and accounts allocation. limit is the
// allocation ceiling for this call (0 = 2 GiB + slack).
func Guard(tag string, limit uint64, site func(p any) string, f func() error) (o Outcome) {
	o.Tag = tag
	a0 := AllocBytes()
	defer func() {
		o.Alloc = AllocBytes() - a0
		if p := recover(); p != nil {
			o.Class = "panic"
			o.Site = site(p)
			return
		}
		if limit == 0 {
			limit = 2<<30 + 64<<20
		}
		if o.Alloc > limit {
			o.Class = "overalloc"
			o.Site = fmt.Sprintf("allocated > %d MiB", limit>>20)
		}
		if o.Alloc > 256<<20 {
			debug.FreeOSMemory()
		}
	}()
	if err := f(); err != nil {
		o.Class = "error"
	} else {
		o.Class = "ok"
	}
	return o
}

func workerName() string { return os.Getenv("VERIF_ISO_WORKER") }

// IsWorker reports whether this process is an isolated worker.
func IsWorker() bool { return workerName() != "" }

// Run executes fn over [0,n). In a worker process whose VERIF_ISO_WORKER equals name it serves
// batches and never returns; in a worker for another name it returns an empty result at once.
func Run(name string, n int, batch int, workers int, perInput time.Duration, deadline time.Time, fn Fn) *Result {
	if w := workerName(); w != "" {
		if w != name {
			return &Result{ByClass: map[string]int64{}, Exhaustive: true}
		}
		serve(fn)
		os.Exit(0)
	}
	res := &Result{ByClass: map[string]int64{}, Exhaustive: true}
	var mu sync.Mutex
	next := 0
	take := func() (int, int, bool) {
		mu.Lock()
		defer mu.Unlock()
		if next >= n || (!deadline.IsZero() && time.Now().After(deadline)) {
			if next < n {
				res.Exhaustive = false
			}
			return 0, 0, false
		}
		f := next
		t := f + batch
		if t > n {
			t = n
		}
		next = t
		return f, t, true
	}
	var suspects []Bad
	var wg sync.WaitGroup
	for w := 0; w < workers; w++ {
		wg.Add(1)
		go func(id int) {
			defer wg.Done()
			var wk *worker
			defer func() {
				if wk != nil {
					wk.stop()
				}
			}()
			for {
				f, t, ok := take()
				if !ok {
					return
				}
				for f < t {
					if wk == nil {
						var err error
						wk, err = startWorker(name, id)
						if err != nil {
							mu.Lock()
							res.NotRepro = append(res.NotRepro, Bad{Index: f, Class: "harness", Site: err.Error()})
							res.Exhaustive = false
							mu.Unlock()
							return
						}
					}
					resp, died := wk.do(f, t, perInput)
					if os.Getenv("VERIF_ISO_DEBUG") != "" {
						fmt.Fprintf(os.Stderr, "iso[%s] worker %d batch [%d,%d) resp=%v died=%+v\n", name, id, f, t, resp != nil, died)
					}
					mu.Lock()
					if resp != nil {
						res.Calls += resp.Calls
						for k, v := range resp.ByClass {
							res.ByClass[k] += v
						}
						res.Bad = append(res.Bad, resp.Bad...)
					}
					mu.Unlock()
					if died == nil && resp != nil && resp.Next > 0 {
						// the worker recycled itself after a call that allocated a lot: a fresh process
						// gets zeroed pages from the OS for free, a used one has to clear 2 GiB again.
						mu.Lock()
						res.Inputs += int64(resp.Next - f)
						res.Recycled++
						mu.Unlock()
						wk.stop()
						wk = nil
						f = resp.Next
						continue
					}
					if died == nil {
						mu.Lock()
						res.Inputs += int64(t - f)
						mu.Unlock()
						break
					}
					// the worker died or stalled at input died.Index: remember it, restart after it
					mu.Lock()
					suspects = append(suspects, *died)
					res.Restarts++
					if res.Restarts >= MaxDeaths {
						// enough evidence: stop handing out work instead of killing workers all day
						next = n
						res.Exhaustive = false
					}
					res.Inputs += int64(died.Index + 1 - f)
					stop := res.Restarts >= MaxDeaths
					mu.Unlock()
					wk.stop()
					wk = nil
					f = died.Index + 1
					if stop {
						break
					}
				}
			}
		}(w)
	}
	wg.Wait()
	// confirm every suspect alone in a fresh worker before classifying it
	confirmed := map[string]int{}
	for _, s := range suspects {
		if confirmed[s.Class+s.Site] >= 3 {
			// same class and site already confirmed alone three times: count it without another re-run
			res.Bad = append(res.Bad, s)
			res.ByClass[s.Class]++
			continue
		}
		wk, err := startWorker(name, 99)
		if err != nil {
			res.NotRepro = append(res.NotRepro, s)
			continue
		}
		limit := perInput * 2
		resp, died := wk.do(s.Index, s.Index+1, limit)
		wk.stop()
		if died != nil {
			res.Bad = append(res.Bad, *died)
			res.ByClass[died.Class]++
			confirmed[s.Class+s.Site]++
			continue
		}
		// did not die alone: whatever it reports alone is its outcome
		if resp != nil {
			res.Calls += resp.Calls
			for k, v := range resp.ByClass {
				res.ByClass[k] += v
			}
			res.Bad = append(res.Bad, resp.Bad...)
		}
		res.NotRepro = append(res.NotRepro, s)
	}
	sort.Slice(res.Bad, func(i, j int) bool { return res.Bad[i].Index < res.Bad[j].Index })
	return res
}

type worker struct {
	cmd      *exec.Cmd
	in       *bufio.Writer
	out      *bufio.Reader
	stdin    interface{ Close() error }
	progress *os.File
	ready    bool // the worker has shown its first sign of life (ready mark or first input index)
	stderr   *tailBuf
	lines    chan []byte
}

// tailBuf keeps the first and the last 16 KiB of a worker's stderr (a stack-overflow traceback is huge
// and names the fatal error at its very beginning).
type tailBuf struct {
	mu   sync.Mutex
	head []byte
	b    []byte
}

func (t *tailBuf) Write(p []byte) (int, error) {
	t.mu.Lock()
	if len(t.head) < 16384 {
		n := 16384 - len(t.head)
		if n > len(p) {
			n = len(p)
		}
		t.head = append(t.head, p[:n]...)
	}
	t.b = append(t.b, p...)
	if len(t.b) > 16384 {
		t.b = t.b[len(t.b)-16384:]
	}
	t.mu.Unlock()
	return len(p), nil
}
func (t *tailBuf) String() string {
	t.mu.Lock()
	defer t.mu.Unlock()
	return string(t.head) + "\n...\n" + string(t.b)
}

func startWorker(name string, id int) (*worker, error) {
	pf, err := os.CreateTemp("", "iso-progress-")
	if err != nil {
		return nil, err
	}
	args := ""
	for _, a := range os.Args {
		args += " '" + strings.ReplaceAll(a, "'", "'\\''") + "'"
	}
	cmd := exec.Command("bash", "-c", fmt.Sprintf("ulimit -v %d; ulimit -c 0; exec%s", MemLimitKB, args))
	cmd.Env = append(os.Environ(), "VERIF_ISO_WORKER="+name, "VERIF_ISO_PROGRESS="+pf.Name(), "GOMAXPROCS=2", "GOTRACEBACK=single", "VERIF_WORKER_PHASE=__iso__")
	cmd.SysProcAttr = &syscall.SysProcAttr{Setpgid: true}
	stdin, _ := cmd.StdinPipe()
	stdout, _ := cmd.StdoutPipe()
	tb := &tailBuf{}
	cmd.Stderr = tb
	if err := cmd.Start(); err != nil {
		return nil, err
	}
	w := &worker{cmd: cmd, in: bufio.NewWriter(stdin), out: bufio.NewReaderSize(stdout, 1<<20), stdin: stdin, progress: pf, stderr: tb, lines: make(chan []byte, 1)}
	go func() {
		for {
			line, err := w.out.ReadBytes('\n')
			if err != nil {
				close(w.lines)
				return
			}
			w.lines <- line
		}
	}()
	return w, nil
}

func (w *worker) stop() {
	_ = w.stdin.Close()
	if w.cmd.Process != nil {
		_ = syscall.Kill(-w.cmd.Process.Pid, syscall.SIGKILL)
	}
	_ = w.cmd.Wait()
	name := w.progress.Name()
	_ = w.progress.Close()
	_ = os.Remove(name)
}

func (w *worker) inflight() int {
	var b [8]byte
	if _, err := w.progress.ReadAt(b[:], 0); err != nil {
		return -1
	}
	return int(binary.LittleEndian.Uint64(b[:]))
}

// ticks reads the sub-input progress counter (bumped by Tick between the calls made for one input).
func (w *worker) ticks() uint64 {
	var b [8]byte
	if _, err := w.progress.ReadAt(b[:], 8); err != nil {
		return 0
	}
	return binary.LittleEndian.Uint64(b[:])
}

// do sends one batch; it returns the response, or (partial nil, the in-flight input) when the
// worker died or stalled.
func (w *worker) do(from, to int, perInput time.Duration) (*response, *Bad) {
	b, _ := json.Marshal(request{from, to})
	_, _ = w.in.Write(append(b, '\n'))
	_ = w.in.Flush()
	if !w.ready {
		// the stall clock must not run while the worker is still setting itself up (case lists,
		// builds of seed files ...): wait for its first sign of life. A worker that never starts
		// is an error of the harness, not a hang of the code under test.
		start := time.Now()
		for w.ticks() == 0 && w.inflight() < 0 {
			select {
			case line, ok := <-w.lines:
				// answered (or died) before we saw the ready mark: hand the line back
				w.ready = true
				if !ok {
					_ = w.cmd.Wait()
					return nil, &Bad{Index: from, Class: classifyDeath(w.cmd, w.stderr.String()), Site: deathSite(w.stderr.String())}
				}
				var r response
				if err := json.Unmarshal(line, &r); err != nil {
					return nil, &Bad{Index: from, Class: "harness", Site: "bad worker response: " + err.Error()}
				}
				return &r, nil
			case <-time.After(100 * time.Millisecond):
			}
			if time.Since(start) > StartupLimit {
				return nil, &Bad{Index: from, Class: "harness", Site: fmt.Sprintf("worker not ready after %s", StartupLimit)}
			}
		}
		w.ready = true
	}
	last := -2
	lastTick := uint64(0)
	lastChange := time.Now()
	tick := time.NewTicker(200 * time.Millisecond)
	defer tick.Stop()
	for {
		select {
		case line, ok := <-w.lines:
			if !ok {
				// worker died: classify from the exit status and the end of stderr
				_ = w.cmd.Wait()
				idx := w.inflight()
				if idx < from || idx >= to {
					idx = from
				}
				return nil, &Bad{Index: idx, Class: classifyDeath(w.cmd, w.stderr.String()), Site: deathSite(w.stderr.String())}
			}
			var r response
			if err := json.Unmarshal(line, &r); err != nil {
				return nil, &Bad{Index: from, Class: "harness", Site: "bad worker response: " + err.Error()}
			}
			return &r, nil
		case <-tick.C:
			cur := w.inflight()
			tk := w.ticks()
			if cur != last || tk != lastTick {
				last, lastTick, lastChange = cur, tk, time.Now()
			} else if time.Since(lastChange) > perInput {
				idx := cur
				if idx < from || idx >= to {
					idx = from
				}
				return nil, &Bad{Index: idx, Class: "hang", Site: fmt.Sprintf("no progress for %s", perInput)}
			}
		}
	}
}

func classifyDeath(cmd *exec.Cmd, stderr string) string {
	switch {
	case strings.Contains(stderr, "fatal error: out of memory"), strings.Contains(stderr, "cannot allocate"), strings.Contains(stderr, "runtime: out of memory"):
		return "fatal:out-of-memory"
	case strings.Contains(stderr, "stack overflow"), strings.Contains(stderr, "stack exceeds"):
		return "fatal:stack-overflow"
	case strings.Contains(stderr, "fatal error:"):
		i := strings.Index(stderr, "fatal error:")
		line := stderr[i:]
		if j := strings.IndexByte(line, '\n'); j > 0 {
			line = line[:j]
		}
		return "fatal:" + strings.TrimSpace(strings.TrimPrefix(line, "fatal error:"))
	}
	if cmd.ProcessState != nil {
		if ws, ok := cmd.ProcessState.Sys().(syscall.WaitStatus); ok && ws.Signaled() {
			return fmt.Sprintf("killed:%v", ws.Signal())
		}
		return fmt.Sprintf("exit:%d", cmd.ProcessState.ExitCode())
	}
	return "exit:unknown"
}

// deathSite extracts a stable frame from a fatal traceback: the first frame (innermost first) that
// belongs to the code under test, else the innermost non-runtime frame, else the last stderr line.
func deathSite(stderr string) string {
	lines := strings.Split(stderr, "\n")
	first := ""
	for i, l := range lines {
		if strings.HasPrefix(l, "goroutine ") && strings.Contains(l, "[running]") {
			for j := i + 1; j < len(lines); j++ {
				fn := lines[j]
				if strings.HasPrefix(fn, "\t") || fn == "" || strings.HasPrefix(fn, "...") {
					continue
				}
				if strings.HasPrefix(fn, "goroutine ") {
					break
				}
				if k := strings.LastIndex(fn, "("); k > 0 {
					fn = fn[:k]
				}
				if strings.HasPrefix(fn, "runtime.") || strings.HasPrefix(fn, "runtime/") {
					continue
				}
				if first == "" {
					first = fn
				}
				if strings.Contains(fn, "github.com/foxglove/mcap/") {
					return fn
				}
			}
			break
		}
	}
	if first != "" {
		return first
	}
	for i := len(lines) - 1; i >= 0; i-- {
		if s := strings.TrimSpace(lines[i]); s != "" {
			if len(s) > 160 {
				s = s[:160]
			}
			return s
		}
	}
	return ""
}

var tickFile *os.File
var tickCount uint64

// Tick records progress inside one input (call it between the entry points run for one input), so
// that the stall deadline applies to a single call and not to their sum.
func Tick() {
	if tickFile == nil {
		return
	}
	tickCount++
	var b [8]byte
	binary.LittleEndian.PutUint64(b[:], tickCount)
	_, _ = tickFile.WriteAt(b[:], 8)
}

var sentinel []byte

// FenceHeap arranges the heap so that the first very large allocation of this process lands in
// address space that has never been used: Go must clear a span that overlaps previously used
// memory (seconds for 2 GiB), but gets fresh pages from the OS already zeroed. A 256 MiB block is
// allocated (never touched), a small block that stays alive is placed after it, and the big block
// is released: short-lived buffers are then served from the released range, below the fence, and
// a request too large for that range goes above it.
func FenceHeap() {
	if sentinel != nil {
		return
	}
	var held [][]byte
	for try := 0; try < 8; try++ {
		t := make([]byte, 256<<20)
		f := make([]byte, 1<<20)
		if uintptr(unsafe.Pointer(&f[0])) > uintptr(unsafe.Pointer(&t[len(t)-1])) {
			sentinel = f // the fence sits above the 256 MiB range that is about to be released
			sentinel[0] = 1
			break
		}
		held = append(held, t, f) // keep them allocated so that the next attempt lands elsewhere
	}
	held = nil
	runtime.GC()
}

// serve is the worker loop.
func serve(fn Fn) {
	debug.SetMaxStack(64 << 20)
	if sentinel == nil {
		FenceHeap()
	}
	pf, err := os.OpenFile(os.Getenv("VERIF_ISO_PROGRESS"), os.O_WRONLY, 0)
	if err != nil {
		fmt.Fprintln(os.Stderr, "iso worker: cannot open progress file:", err)
		os.Exit(3)
	}
	tickFile = pf
	Tick() // ready mark: set-up is over, the stall clock may run from here on
	in := bufio.NewReaderSize(os.Stdin, 1<<16)
	out := bufio.NewWriter(os.Stdout)
	var pb [8]byte
	for {
		line, err := in.ReadBytes('\n')
		if err != nil {
			return
		}
		var rq request
		if err := json.Unmarshal(line, &rq); err != nil {
			return
		}
		resp := response{ByClass: map[string]int64{}}
		for i := rq.From; i < rq.To; i++ {
			binary.LittleEndian.PutUint64(pb[:], uint64(i))
			_, _ = pf.WriteAt(pb[:], 0)
			heavy := false
			for _, o := range fn(i) {
				resp.Calls++
				resp.ByClass[o.Class]++
				if o.Class != "ok" && o.Class != "error" && !strings.HasPrefix(o.Class, "deferred") && len(resp.Bad) < 2000 {
					resp.Bad = append(resp.Bad, Bad{Index: i, Class: o.Class, Site: o.Site, Tag: o.Tag})
				}
				heavy = heavy || o.Alloc > 32<<20
			}
			if heavy {
				resp.Next = i + 1
				break
			}
		}
		b, _ := json.Marshal(&resp)
		_, _ = out.Write(append(b, '\n'))
		_ = out.Flush()
	}
}
