// Package c13child holds the workload shared by the GOMAXPROCS digest children and the free-running
// -race pass of check C13. It depends only on go/mcap and the small harness packages, so that the
// race-instrumented binary stays small (no cgo).
package c13child

import (
	"bytes"
	"crypto/sha256"
	"encoding/hex"
	"fmt"
	"sync"

	mcap "github.com/foxglove/mcap/go/mcap"

	"verif/harness/gow"
	"verif/harness/model"
	"verif/harness/ref"
)

// Digest writes a fixed family of files and returns one hash over all outputs.
func Digest(workers int, rounds int) (string, error) {
	small := workers > 1 // the race-instrumented pass uses a smaller family (the detector slows compression 10-20x)
	var chans []model.Op
	for i := 0; i < 5; i++ {
		var kv []ref.KV
		for k := 0; k < 12; k++ {
			kv = append(kv, ref.KV{K: fmt.Sprintf("key%02d", (k*7)%12), V: fmt.Sprint(i, k)})
		}
		chans = append(chans, model.Chn(&ref.Channel{ID: uint16(i), Topic: fmt.Sprint("topic", i), MessageEncoding: "e", Metadata: kv}))
	}
	ops := append([]model.Op{}, chans...)
	nmsg := 300
	if small {
		nmsg = 60
	}
	for i := 0; i < nmsg; i++ {
		ops = append(ops, model.Msg(uint16(i%5), uint64(i*37%101), 20+i%50, 0))
		if i%97 == 0 {
			ops = append(ops, model.Met(model.D3))
		}
	}
	c := model.Fixed(model.Headers[1], ops...)
	var cfgs []gow.Config
	for _, comp := range []string{"", "zstd", "lz4"} {
		for _, lvl := range []int{0, 1, 2, 3, 7} {
			if small && lvl != 0 && lvl != 1 {
				continue
			}
			for _, cs := range []int64{64, 4096, 1 << 20} {
				cfgs = append(cfgs, gow.Config{CRC: true, Chunked: true, ChunkSize: cs, Compression: comp, Level: lvl})
			}
		}
	}
	want := make([][]byte, len(cfgs))
	for i, cfg := range cfgs {
		want[i] = gow.Write(c, cfg, nil, nil).Bytes
	}
	if workers > 1 {
		// free-running goroutines, each with its own writers and readers (used under -race)
		var wg sync.WaitGroup
		errs := make(chan error, workers)
		for g := 0; g < workers; g++ {
			wg.Add(1)
			go func(g int) {
				defer wg.Done()
				for r := 0; r < rounds; r++ {
					i := (g*7 + r*3) % len(cfgs)
					got := gow.Write(c, cfgs[i], nil, nil).Bytes
					if !bytes.Equal(got, want[i]) {
						errs <- fmt.Errorf("goroutine %d: output of configuration %s differs from the single-goroutine run", g, cfgs[i])
						return
					}
					lr := gow.Lex(bytes.NewReader(got), gow.LexOpts{Validate: true})
					if lr.Panic != "" || len(lr.Toks) == 0 {
						errs <- fmt.Errorf("goroutine %d: lexer failed on its own file: %v %s", g, lr.Err, lr.Panic)
						return
					}
					ir := gow.Iterate(bytes.NewReader(got), gow.NextIntoNil, false, nil, 0, mcap.InOrder(mcap.LogTimeOrder))
					if ir.Failed() != nil || len(ir.Triples) != nmsg {
						errs <- fmt.Errorf("goroutine %d: indexed read returned %d messages: %v", g, len(ir.Triples), ir.Failed())
						return
					}
				}
			}(g)
		}
		wg.Wait()
		close(errs)
		for e := range errs {
			return "", e
		}
	}
	h := sha256.New()
	for _, b := range want {
		h.Write(b)
	}
	return hex.EncodeToString(h.Sum(nil)), nil
}

