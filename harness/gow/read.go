package gow

import (
	"bytes"
	"errors"
	"fmt"
	"io"
	"reflect"

	mcap "github.com/foxglove/mcap/go/mcap"

	"verif/harness/ref"
)

// TokAttachment is the pseudo token type used for attachments delivered through the callback.
const TokAttachment mcap.TokenType = -1

// Tok is one lexer token (body copied at delivery time) or one attachment seen by the callback.
type Tok struct {
	Type        mcap.TokenType
	Body        []byte
	Live        []byte // the slice the lexer returned (for the stability clause), nil when a caller buffer was reused
	Att         *ref.Attachment
	Declared    uint64 // data size the attachment reader declared
	ComputedCRC uint32
	ParsedCRC   uint32
	CRCErr      string
}

// LexOpts selects the lexer configuration.
type LexOpts struct {
	SkipMagic, Validate, AttCRC, EmitChunks, EmitInvalid bool
	MaxRec, MaxChunk                                     int
	NoAttCallback                                        bool
	Decomp                                               map[mcap.CompressionFormat]mcap.ResettableReader
	ReuseBuf                                             bool
	ParsedCRCFirst                                       bool // ask for the stored CRC before the computed one
	Limit                                                int // stop after this many tokens (0 = none); guards against unbounded streams
}

// LexResult is everything one lexer run delivered.
type LexResult struct {
	Toks     []Tok
	Err      error  // terminal error (io.EOF for a clean end)
	NewErr   error  // error from NewLexer
	Panic    string // normalised panic site, if the library panicked
	Unstable string // non-empty if a value returned earlier changed afterwards
	Invalid  int    // number of TokenInvalidChunk tokens
}

// Lex runs the lexer to the end of r.
func Lex(r io.Reader, o LexOpts) (res *LexResult) {
	res = &LexResult{}
	defer func() {
		if p := recover(); p != nil {
			res.Panic = PanicSite(p)
		}
	}()
	lo := &mcap.LexerOptions{
		SkipMagic: o.SkipMagic, ValidateChunkCRCs: o.Validate, ComputeAttachmentCRCs: o.AttCRC, EmitChunks: o.EmitChunks,
		EmitInvalidChunks: o.EmitInvalid, MaxRecordSize: o.MaxRec, MaxDecompressedChunkSize: o.MaxChunk, Decompressors: o.Decomp,
	}
	if !o.NoAttCallback {
		lo.AttachmentCallback = func(ar *mcap.AttachmentReader) error {
			data, err := io.ReadAll(ar.Data())
			t := Tok{Type: TokAttachment, Declared: ar.DataSize, Att: &ref.Attachment{LogTime: ar.LogTime, CreateTime: ar.CreateTime, Name: ar.Name, MediaType: ar.MediaType, Data: data}}
			if err != nil {
				// a careful caller propagates read errors; the data seen so far is still recorded
				res.Toks = append(res.Toks, t)
				return err
			}
			if uint64(len(data)) != ar.DataSize {
				res.Toks = append(res.Toks, t)
				return fmt.Errorf("attachment data ended after %d of %d bytes: %w", len(data), ar.DataSize, io.ErrUnexpectedEOF)
			}
			var c1, c2 uint32
			var e1, e2 error
			if o.ParsedCRCFirst {
				c2, e2 = ar.ParsedCRC()
				c1, e1 = ar.ComputedCRC()
			} else {
				c1, e1 = ar.ComputedCRC()
				c2, e2 = ar.ParsedCRC()
			}
			t.ComputedCRC, t.ParsedCRC = c1, c2
			t.Att.CRC = c2
			if e1 != nil {
				t.CRCErr = e1.Error()
			}
			res.Toks = append(res.Toks, t)
			if e2 != nil {
				return e2
			}
			return nil
		}
	}
	l, err := mcap.NewLexer(r, lo)
	if err != nil {
		res.NewErr = err
		res.Err = err
		return res
	}
	defer l.Close()
	var buf []byte
	if o.ReuseBuf {
		buf = make([]byte, 16)
	}
	for {
		tt, body, err := l.Next(buf)
		if err != nil && tt != mcap.TokenInvalidChunk {
			res.Err = err
			break
		}
		if tt == mcap.TokenInvalidChunk {
			res.Invalid++
			res.Toks = append(res.Toks, Tok{Type: tt})
			continue
		}
		t := Tok{Type: tt, Body: append([]byte(nil), body...)}
		if o.ReuseBuf {
			if cap(body) > cap(buf) {
				buf = body[:cap(body)]
			}
		} else {
			t.Live = body
		}
		res.Toks = append(res.Toks, t)
		if o.Limit > 0 && len(res.Toks) >= o.Limit {
			res.Err = errors.New("harness: token limit reached")
			break
		}
	}
	for i := range res.Toks {
		if res.Toks[i].Live != nil && !bytes.Equal(res.Toks[i].Live, res.Toks[i].Body) {
			res.Unstable = fmt.Sprintf("token %d (%v) returned by Next(nil) changed after later reads", i, res.Toks[i].Type)
			break
		}
	}
	return res
}

// Triple is one (schema, channel, message) result of a message iterator, converted to model types.
type Triple struct {
	S *ref.Schema
	C *ref.Channel
	M *ref.Message
}

func FromGoSchema(s *mcap.Schema) *ref.Schema {
	if s == nil {
		return nil
	}
	return &ref.Schema{ID: s.ID, Name: s.Name, Encoding: s.Encoding, Data: append([]byte(nil), s.Data...)}
}
func FromGoChannel(c *mcap.Channel) *ref.Channel {
	if c == nil {
		return nil
	}
	return &ref.Channel{ID: c.ID, SchemaID: c.SchemaID, Topic: c.Topic, MessageEncoding: c.MessageEncoding, Metadata: ref.MapKV(c.Metadata)}
}
func FromGoMessage(m *mcap.Message) *ref.Message {
	return &ref.Message{ChannelID: m.ChannelID, Sequence: m.Sequence, LogTime: m.LogTime, PublishTime: m.PublishTime, Data: append([]byte(nil), m.Data...)}
}

// Iteration modes.
const (
	NextNil = iota
	NextBuf
	NextIntoNil
	NextIntoReused
)

// IterResult is everything one message iteration delivered.
type IterResult struct {
	Triples  []Triple
	Meta     []ref.Metadata
	OpenErr  error // from NewReader
	MsgErr   error // from Messages()
	Err      error // terminal error of Next (io.EOF for a clean end)
	Panic    string
	Unstable string
	Reader   *mcap.Reader
	It       mcap.MessageIterator
}

// Failed reports any non-EOF error.
func (r *IterResult) Failed() error {
	switch {
	case r.OpenErr != nil:
		return r.OpenErr
	case r.MsgErr != nil:
		return r.MsgErr
	case r.Err != nil && !errors.Is(r.Err, io.EOF):
		return r.Err
	}
	return nil
}

// IterHook is called after every successful NextInto (used by C20 to query the slot hook).
type IterHook func(it mcap.MessageIterator, n int)

// Iterate opens a reader on r and iterates all messages.
func Iterate(r io.Reader, mode int, withMeta bool, hook IterHook, limit int, opts ...mcap.ReadOpt) (res *IterResult) {
	res = &IterResult{}
	defer func() {
		if p := recover(); p != nil {
			res.Panic = PanicSite(p)
		}
	}()
	rd, err := mcap.NewReader(r)
	if err != nil {
		res.OpenErr = err
		return res
	}
	res.Reader = rd
	defer rd.Close()
	if withMeta {
		opts = append(opts, mcap.WithMetadataCallback(func(m *mcap.Metadata) error {
			res.Meta = append(res.Meta, ref.Metadata{Name: m.Name, Metadata: ref.MapKV(m.Metadata)})
			return nil
		}))
	}
	it, err := rd.Messages(opts...)
	if err != nil {
		res.MsgErr = err
		return res
	}
	res.It = it
	type kept struct {
		s  *mcap.Schema
		c  *mcap.Channel
		m  *mcap.Message
		cp Triple
	}
	var keep []kept
	var buf []byte
	var reuse *mcap.Message
	if mode == NextBuf {
		buf = make([]byte, 0, 8)
	}
	if mode == NextIntoReused {
		reuse = &mcap.Message{}
	}
	for n := 0; ; n++ {
		var s *mcap.Schema
		var c *mcap.Channel
		var m *mcap.Message
		var err error
		switch mode {
		case NextNil:
			s, c, m, err = it.Next(nil)
		case NextBuf:
			s, c, m, err = it.Next(buf)
		case NextIntoNil:
			s, c, m, err = it.NextInto(nil)
		case NextIntoReused:
			s, c, m, err = it.NextInto(reuse)
		}
		if err != nil {
			res.Err = err
			break
		}
		t := Triple{FromGoSchema(s), FromGoChannel(c), FromGoMessage(m)}
		res.Triples = append(res.Triples, t)
		k := kept{s: s, c: c, cp: t}
		if mode == NextNil || mode == NextIntoNil {
			k.m = m
		}
		keep = append(keep, k)
		if mode == NextBuf && cap(m.Data) > cap(buf) {
			buf = m.Data[:0]
		}
		if hook != nil {
			hook(it, n)
		}
		if limit > 0 && len(res.Triples) >= limit {
			res.Err = errors.New("harness: message limit reached")
			break
		}
	}
	for i, k := range keep {
		if !reflect.DeepEqual(FromGoSchema(k.s), k.cp.S) || !reflect.DeepEqual(FromGoChannel(k.c), k.cp.C) {
			res.Unstable = fmt.Sprintf("schema/channel returned with message %d changed after later reads", i)
			break
		}
		if k.m != nil && !reflect.DeepEqual(FromGoMessage(k.m), k.cp.M) {
			res.Unstable = fmt.Sprintf("message %d returned by an allocating call changed after later reads", i)
			break
		}
	}
	return res
}

// EqualSchema compares treating nil and empty data as equal.
func EqualSchema(a, b *ref.Schema) bool {
	if a == nil || b == nil {
		return a == b
	}
	return a.Equal(b)
}

func EqualKV(a, b []ref.KV) bool {
	if len(a) != len(b) {
		return false
	}
	ma := ref.KVMap(a)
	for _, e := range b {
		if v, ok := ma[e.K]; !ok || v != e.V {
			return false
		}
	}
	return len(ma) == len(ref.KVMap(b))
}

func EqualChannel(a, b *ref.Channel) bool {
	if a == nil || b == nil {
		return a == b
	}
	return a.ID == b.ID && a.SchemaID == b.SchemaID && a.Topic == b.Topic && a.MessageEncoding == b.MessageEncoding && EqualKV(a.Metadata, b.Metadata)
}

func EqualMessage(a, b *ref.Message) bool {
	return a.ChannelID == b.ChannelID && a.Sequence == b.Sequence && a.LogTime == b.LogTime && a.PublishTime == b.PublishTime && bytes.Equal(a.Data, b.Data)
}

func EqualAttachment(a, b *ref.Attachment) bool {
	return a.LogTime == b.LogTime && a.CreateTime == b.CreateTime && a.Name == b.Name && a.MediaType == b.MediaType && bytes.Equal(a.Data, b.Data)
}

func EqualMetadata(a, b *ref.Metadata) bool {
	return a.Name == b.Name && EqualKV(a.Metadata, b.Metadata)
}
