// Package gow drives the real go/mcap writer and readers for the checks.
package gow

import (
	"bytes"
	"fmt"
	"io"
	"runtime/debug"
	"strings"

	mcap "github.com/foxglove/mcap/go/mcap"
	"github.com/pierrec/lz4/v4"

	"verif/harness/explore"
	"verif/harness/model"
	"verif/harness/ref"
)

// Flag bits of Config.Flags, in the order of the ten Skip*/Override options.
const (
	FSkipMessageIndexing = 1 << iota
	FSkipStatistics
	FSkipRepeatedSchemas
	FSkipRepeatedChannelInfos
	FSkipAttachmentIndex
	FSkipMetadataIndex
	FSkipChunkIndex
	FSkipSummaryOffsets
	FOverrideLibrary
	FSkipMagic
	NFlags = 10
)

// Config is one writer configuration.
type Config struct {
	Flags       int
	CRC         bool
	Chunked     bool
	ChunkSize   int64
	Compression string
	Level       int
	Custom      int // 0 none, 1 xor codec registered as "xor1", 2 xor codec registered under the name "zstd", 3 a caller-supplied real lz4 codec registered as "lz4", 4 a caller-supplied lz4 compressor emitting frames WITHOUT content checksum (what LZ4F defaults give), read back by the library's own lz4 decoder
	AttKind     int // how attachment data is supplied: 0 bytes.Reader (has WriteTo), 1 plain reader with small reads, 2 plain reader returning its last bytes together with io.EOF
}

func (c Config) String() string {
	s := fmt.Sprintf("flags=%010b crc=%v", c.Flags, c.CRC)
	if !c.Chunked {
		if c.AttKind != 0 {
			s += fmt.Sprintf(" attsrc=%d", c.AttKind)
		}
		return s + " unchunked"
	}
	if c.AttKind != 0 {
		s += fmt.Sprintf(" attsrc=%d", c.AttKind)
	}
	return s + fmt.Sprintf(" chunk=%d comp=%q level=%d custom=%d", c.ChunkSize, c.Compression, c.Level, c.Custom)
}

func (c Config) Has(f int) bool { return c.Flags&f != 0 }

// Options builds a fresh WriterOptions (the writer mutates the struct it is given).
func (c Config) Options() *mcap.WriterOptions {
	o := &mcap.WriterOptions{
		IncludeCRC:               c.CRC,
		Chunked:                  c.Chunked,
		ChunkSize:                c.ChunkSize,
		Compression:              mcap.CompressionFormat(c.Compression),
		CompressionLevel:         mcap.CompressionLevel(c.Level),
		SkipMessageIndexing:      c.Has(FSkipMessageIndexing),
		SkipStatistics:           c.Has(FSkipStatistics),
		SkipRepeatedSchemas:      c.Has(FSkipRepeatedSchemas),
		SkipRepeatedChannelInfos: c.Has(FSkipRepeatedChannelInfos),
		SkipAttachmentIndex:      c.Has(FSkipAttachmentIndex),
		SkipMetadataIndex:        c.Has(FSkipMetadataIndex),
		SkipChunkIndex:           c.Has(FSkipChunkIndex),
		SkipSummaryOffsets:       c.Has(FSkipSummaryOffsets),
		OverrideLibrary:          c.Has(FOverrideLibrary),
		SkipMagic:                c.Has(FSkipMagic),
	}
	switch c.Custom {
	case 1:
		o.Compressor = mcap.NewCustomCompressor("xor1", &XorWriter{})
	case 2:
		o.Compressor = mcap.NewCustomCompressor("zstd", &XorWriter{})
	case 3:
		o.Compressor = mcap.NewCustomCompressor("lz4", lz4.NewWriter(nil))
	case 4:
		w := lz4.NewWriter(nil)
		_ = w.Apply(lz4.ChecksumOption(false), lz4.BlockSizeOption(lz4.Block64Kb))
		o.Compressor = mcap.NewCustomCompressor("lz4", w)
	}
	return o
}

// CompressionName is the compression string the produced chunks carry.
func (c Config) CompressionName() string {
	switch c.Custom {
	case 1:
		return "xor1"
	case 2:
		return "zstd"
	case 3, 4:
		return "lz4"
	}
	return c.Compression
}

// Codecs returns the decoder overrides the reference decoder needs for this configuration.
func (c Config) Codecs() map[string]ref.Codec {
	if c.Custom == 2 {
		return map[string]ref.Codec{"zstd": ref.Codecs["xor1"]}
	}
	return nil
}

// Decompressors returns the caller-supplied decompressors matching the configuration.
func (c Config) Decompressors() map[mcap.CompressionFormat]mcap.ResettableReader {
	switch c.Custom {
	case 1:
		return map[mcap.CompressionFormat]mcap.ResettableReader{"xor1": &XorReader{}}
	case 2:
		return map[mcap.CompressionFormat]mcap.ResettableReader{"zstd": &XorReader{}}
	case 3:
		return map[mcap.CompressionFormat]mcap.ResettableReader{"lz4": &LZ4Reader{r: lz4.NewReader(nil)}}
	}
	return nil
}

// Expect translates a configuration into what the spec validator may demand of the output.
func (c Config) Expect() ref.Expect {
	t := func(skip int) ref.Tri {
		if c.Has(skip) {
			return ref.No
		}
		return ref.Yes
	}
	e := ref.Expect{
		CRC:              ref.No,
		ChunkIndex:       t(FSkipChunkIndex),
		MessageIndex:     t(FSkipMessageIndexing),
		AttachmentIndex:  t(FSkipAttachmentIndex),
		MetadataIndex:    t(FSkipMetadataIndex),
		Statistics:       t(FSkipStatistics),
		SummaryOffsets:   t(FSkipSummaryOffsets),
		RepeatedSchemas:  t(FSkipRepeatedSchemas),
		RepeatedChannels: t(FSkipRepeatedChannelInfos),
	}
	if c.CRC {
		e.CRC = ref.Yes
	}
	return e
}

// XorWriter is the toy caller-supplied compressor.
type XorWriter struct{ w io.Writer }

func (x *XorWriter) Write(p []byte) (int, error) {
	q := make([]byte, len(p))
	for i, b := range p {
		q[i] = b ^ 0x5a
	}
	return x.w.Write(q)
}
func (x *XorWriter) Close() error     { return nil }
func (x *XorWriter) Reset(w io.Writer) { x.w = w }

// LZ4Reader is a caller-supplied decompressor for the real lz4 format.
type LZ4Reader struct{ r *lz4.Reader }

func (l *LZ4Reader) Read(p []byte) (int, error) { return l.r.Read(p) }
func (l *LZ4Reader) Reset(r io.Reader) error    { l.r.Reset(r); return nil }

// PlainReader hides every optional interface of a reader; Chunk limits the bytes per Read and
// WithEOF makes the final Read return its data together with io.EOF.
type PlainReader struct {
	B       []byte
	Chunk   int
	WithEOF bool
	off     int
}

func (p *PlainReader) Read(b []byte) (int, error) {
	if p.off >= len(p.B) {
		return 0, io.EOF
	}
	n := len(b)
	if p.Chunk > 0 && n > p.Chunk {
		n = p.Chunk
	}
	if n > len(p.B)-p.off {
		n = len(p.B) - p.off
	}
	copy(b, p.B[p.off:p.off+n])
	p.off += n
	if p.WithEOF && p.off == len(p.B) {
		return n, io.EOF
	}
	return n, nil
}

// XorReader is the matching caller-supplied decompressor.
type XorReader struct{ r io.Reader }

func (x *XorReader) Read(p []byte) (int, error) {
	n, err := x.r.Read(p)
	for i := 0; i < n; i++ {
		p[i] ^= 0x5a
	}
	return n, err
}
func (x *XorReader) Reset(r io.Reader) error { x.r = r; return nil }

// ---------------------------------------------------------------- configuration enumeration

// ChunkMode is one chunking arrangement.
type ChunkMode struct {
	Chunked bool
	Size    int64
}

var ChunkModesNone = []ChunkMode{{false, 0}, {true, 1}, {true, 64}, {true, 1 << 40}}

// ChooseK1 enumerates sub-product K1: all flag combinations x CRC x {unchunked, none/1, none/64, none/huge}.
func ChooseK1(x *explore.Ctx, flagBits int) Config {
	cm := ChunkModesNone[x.Choose("cfg", len(ChunkModesNone))]
	crc := x.Bool("cfg")
	flags := 0
	for b := 0; b < NFlags; b++ {
		if flagBits&(1<<b) != 0 && x.Bool("cfg") {
			flags |= 1 << b
		}
	}
	return Config{Flags: flags, CRC: crc, Chunked: cm.Chunked, ChunkSize: cm.Size}
}

// FlagSets16 are the 16 flag settings of sub-product K2.
var FlagSets16 = func() []int {
	out := []int{0, 1<<NFlags - 1 - FSkipMagic, FSkipMagic}
	for b := 0; b < NFlags-1; b++ {
		out = append(out, 1<<b)
	}
	// conformance-style: everything off but repeated records and statistics
	out = append(out, FSkipMessageIndexing|FSkipChunkIndex|FSkipAttachmentIndex|FSkipMetadataIndex|FSkipSummaryOffsets|FOverrideLibrary)
	out = append(out, FSkipRepeatedSchemas|FSkipRepeatedChannelInfos|FSkipStatistics)
	out = append(out, FSkipMessageIndexing|FSkipRepeatedChannelInfos)
	out = append(out, FOverrideLibrary|FSkipSummaryOffsets)
	return out
}()

type compMode struct {
	comp   string
	custom int
}

var compModes = []compMode{{"", 0}, {"zstd", 0}, {"lz4", 0}, {"", 1}, {"", 2}, {"lz4", 1}, {"", 3}}

// ChooseK2 enumerates sub-product K2: compression x level x custom codec x chunk size x 16 flag settings x CRC.
func ChooseK2(x *explore.Ctx, levels []int, sizes []int64) Config {
	cm := compModes[x.Choose("cfg", len(compModes))]
	lvl := levels[x.Choose("cfg", len(levels))]
	size := sizes[x.Choose("cfg", len(sizes))]
	sets := FlagSets16
	if cm.comp == "zstd" && cm.custom == 0 {
		// a zstd encoder costs ~8 ms to initialise: zstd is combined with 4 flag settings instead of 16
		sets = FlagSets16[:4]
	}
	flags := sets[x.Choose("cfg", len(sets))]
	crc := x.Bool("cfg")
	return Config{Flags: flags, CRC: crc, Chunked: true, ChunkSize: size, Compression: cm.comp, Level: lvl, Custom: cm.custom}
}

// ---------------------------------------------------------------- writing

// Result is the outcome of driving the writer through a content.
type Result struct {
	FaultCall int // WriteStepwise: index of the call during which the probe first changed (-1 = none)
	Bytes  []byte
	Calls  []string // names of the calls made, aligned with Errs
	Errs   []error
	Writer *mcap.Writer
	Panic  string
}

// FirstErr returns the index and value of the first failing call, or -1.
func (r *Result) FirstErr() (int, error) {
	for i, e := range r.Errs {
		if e != nil {
			return i, e
		}
	}
	return -1, nil
}

func toMap(kv []ref.KV) map[string]string {
	if kv == nil {
		return nil
	}
	m := make(map[string]string, len(kv))
	for _, e := range kv {
		m[e.K] = e.V
	}
	return m
}

func GoSchema(s *ref.Schema) *mcap.Schema {
	return &mcap.Schema{ID: s.ID, Name: s.Name, Encoding: s.Encoding, Data: append([]byte(nil), s.Data...)}
}
func GoChannel(c *ref.Channel) *mcap.Channel {
	return &mcap.Channel{ID: c.ID, SchemaID: c.SchemaID, Topic: c.Topic, MessageEncoding: c.MessageEncoding, Metadata: toMap(c.Metadata)}
}
func GoMessage(m *ref.Message) *mcap.Message {
	return &mcap.Message{ChannelID: m.ChannelID, Sequence: m.Sequence, LogTime: m.LogTime, PublishTime: m.PublishTime, Data: append([]byte(nil), m.Data...)}
}

// PanicSite extracts "function: message" from a recovered panic, normalised (no addresses).
func PanicSite(p any) string {
	st := string(debug.Stack())
	site := "?"
	lines := strings.Split(st, "\n")
	for i, l := range lines {
		if strings.HasPrefix(l, "panic(") {
			// next function line after the panic frames
			for j := i + 2; j < len(lines); j += 2 {
				fn := lines[j]
				if k := strings.LastIndex(fn, "("); k > 0 {
					fn = fn[:k]
				}
				if strings.Contains(fn, "runtime.") {
					continue
				}
				site = fn
				break
			}
			break
		}
	}
	msg := fmt.Sprint(p)
	if k := strings.Index(msg, "["); k > 0 {
		msg = msg[:k]
	}
	return site + ": " + strings.TrimSpace(msg)
}

// AttSource lets a check substitute the data source of an attachment (fault injection).
type AttSource func(a *ref.Attachment) (io.Reader, uint64)

// Write drives NewWriter, WriteHeader, every op and Close on sink (a bytes.Buffer when nil). It
// stops at the first error, as a careful caller would.
func Write(c *model.Content, cfg Config, sink io.Writer, src AttSource) (res *Result) {
	res = &Result{}
	var buf *bytes.Buffer
	if sink == nil {
		buf = &bytes.Buffer{}
		sink = buf
	}
	defer func() {
		if p := recover(); p != nil {
			res.Panic = PanicSite(p)
		}
		if buf != nil {
			res.Bytes = buf.Bytes()
		}
	}()
	call := func(name string, err error) bool {
		res.Calls = append(res.Calls, name)
		res.Errs = append(res.Errs, err)
		return err == nil
	}
	w, err := mcap.NewWriter(sink, cfg.Options())
	if !call("NewWriter", err) {
		return res
	}
	res.Writer = w
	if !call("WriteHeader", w.WriteHeader(&mcap.Header{Profile: c.Header.Profile, Library: c.Header.Library})) {
		return res
	}
	for _, o := range c.Ops {
		var err error
		switch o.Kind {
		case model.KSchema:
			err = w.WriteSchema(GoSchema(o.S))
		case model.KChannel:
			err = w.WriteChannel(GoChannel(o.C))
		case model.KMessage:
			err = w.WriteMessage(GoMessage(o.M))
		case model.KAttachment:
			var r io.Reader = bytes.NewReader(o.A.Data)
			switch cfg.AttKind {
			case 1:
				r = &PlainReader{B: o.A.Data, Chunk: 7}
			case 2:
				r = &PlainReader{B: o.A.Data, WithEOF: true}
			}
			size := uint64(len(o.A.Data))
			if src != nil {
				r, size = src(o.A)
			}
			err = w.WriteAttachment(&mcap.Attachment{LogTime: o.A.LogTime, CreateTime: o.A.CreateTime, Name: o.A.Name, MediaType: o.A.MediaType, DataSize: size, Data: r})
		case model.KMetadata:
			err = w.WriteMetadata(&mcap.Metadata{Name: o.D.Name, Metadata: toMap(o.D.Metadata)})
		}
		if !call(o.String(), err) {
			return res
		}
	}
	call("Close", w.Close())
	return res
}

// WriteStepwise is Write with a probe evaluated after every call: the first call after which the
// probe is >= 0 is recorded in FaultCall (used to attribute an injected fault to the call it hit).
func WriteStepwise(c *model.Content, cfg Config, sink io.Writer, probe func() int) (res *Result) {
	res = &Result{FaultCall: -1}
	defer func() {
		if p := recover(); p != nil {
			res.Panic = PanicSite(p)
		}
	}()
	call := func(name string, err error) bool {
		res.Calls = append(res.Calls, name)
		res.Errs = append(res.Errs, err)
		if res.FaultCall < 0 && probe() >= 0 {
			res.FaultCall = len(res.Calls) - 1
		}
		return err == nil
	}
	w, err := mcap.NewWriter(sink, cfg.Options())
	if !call("NewWriter", err) {
		return res
	}
	res.Writer = w
	if !call("WriteHeader", w.WriteHeader(&mcap.Header{Profile: c.Header.Profile, Library: c.Header.Library})) {
		return res
	}
	for _, o := range c.Ops {
		var err error
		switch o.Kind {
		case model.KSchema:
			err = w.WriteSchema(GoSchema(o.S))
		case model.KChannel:
			err = w.WriteChannel(GoChannel(o.C))
		case model.KMessage:
			err = w.WriteMessage(GoMessage(o.M))
		case model.KAttachment:
			err = w.WriteAttachment(&mcap.Attachment{LogTime: o.A.LogTime, CreateTime: o.A.CreateTime, Name: o.A.Name, MediaType: o.A.MediaType, DataSize: uint64(len(o.A.Data)), Data: bytes.NewReader(o.A.Data)})
		case model.KMetadata:
			err = w.WriteMetadata(&mcap.Metadata{Name: o.D.Name, Metadata: toMap(o.D.Metadata)})
		}
		if !call(o.String(), err) {
			return res
		}
	}
	call("Close", w.Close())
	return res
}
