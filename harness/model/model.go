// Package model is the reference content model: the list of calls made on a writer, plus pure
// functions over it (expected statistics, filters, ...), and the generators that enumerate legal
// call sequences through explore.Ctx.
package model

import (
	"fmt"
	"math"

	"verif/harness/explore"
	"verif/harness/ref"
)

type Kind int

const (
	KSchema Kind = iota
	KChannel
	KMessage
	KAttachment
	KMetadata
)

// Op is one writer call after WriteHeader.
type Op struct {
	Kind Kind
	S    *ref.Schema
	C    *ref.Channel
	M    *ref.Message
	A    *ref.Attachment
	D    *ref.Metadata
}

func (o Op) String() string {
	switch o.Kind {
	case KSchema:
		return fmt.Sprintf("S(%d)", o.S.ID)
	case KChannel:
		return fmt.Sprintf("C(%d,s%d,%q)", o.C.ID, o.C.SchemaID, o.C.Topic)
	case KMessage:
		return fmt.Sprintf("M(c%d,t%d,z%d,#%d)", o.M.ChannelID, o.M.LogTime, len(o.M.Data), o.M.Sequence)
	case KAttachment:
		return fmt.Sprintf("A(%q,z%d)", o.A.Name, len(o.A.Data))
	case KMetadata:
		return fmt.Sprintf("D(%q,k%d)", o.D.Name, len(o.D.Metadata))
	}
	return "?"
}

// Content is a header plus the calls made.
type Content struct {
	Header ref.Header
	Ops    []Op
}

func (c *Content) String() string {
	s := fmt.Sprintf("H(%q,%q)", c.Header.Profile, c.Header.Library)
	for _, o := range c.Ops {
		s += " " + o.String()
	}
	return s
}

func (c *Content) Messages() []*ref.Message {
	var out []*ref.Message
	for _, o := range c.Ops {
		if o.Kind == KMessage {
			out = append(out, o.M)
		}
	}
	return out
}

// ChannelByID returns the first channel registered under id (later identical re-registrations are
// no-ops in the writer and identical by construction of the alphabet).
func (c *Content) ChannelByID(id uint16) *ref.Channel {
	for _, o := range c.Ops {
		if o.Kind == KChannel && o.C.ID == id {
			return o.C
		}
	}
	return nil
}
func (c *Content) SchemaByID(id uint16) *ref.Schema {
	for _, o := range c.Ops {
		if o.Kind == KSchema && o.S.ID == id {
			return o.S
		}
	}
	return nil
}

// Stats are the true aggregates of a content.
type Stats struct {
	MessageCount                                             uint64
	SchemaCount, ChannelCount, AttachmentCount, MetadataCount uint32
	Start, End                                               uint64
	PerChannel                                               map[uint16]uint64
	ChannelIDs                                               []uint16 // distinct, registration order
	SchemaIDs                                                []uint16
}

func (c *Content) Stats() Stats {
	s := Stats{PerChannel: map[uint16]uint64{}}
	seenS, seenC := map[uint16]bool{}, map[uint16]bool{}
	for _, o := range c.Ops {
		switch o.Kind {
		case KSchema:
			if !seenS[o.S.ID] {
				seenS[o.S.ID] = true
				s.SchemaCount++
				s.SchemaIDs = append(s.SchemaIDs, o.S.ID)
			}
		case KChannel:
			if !seenC[o.C.ID] {
				seenC[o.C.ID] = true
				s.ChannelCount++
				s.ChannelIDs = append(s.ChannelIDs, o.C.ID)
			}
		case KMessage:
			if s.MessageCount == 0 || o.M.LogTime < s.Start {
				s.Start = o.M.LogTime
			}
			if s.MessageCount == 0 || o.M.LogTime > s.End {
				s.End = o.M.LogTime
			}
			s.MessageCount++
			s.PerChannel[o.M.ChannelID]++
		case KAttachment:
			s.AttachmentCount++
		case KMetadata:
			s.MetadataCount++
		}
	}
	return s
}

// ---------------------------------------------------------------- alphabet

var (
	S1 = &ref.Schema{ID: 1, Name: "s1", Encoding: "e", Data: []byte{1, 2, 3}}
	S2 = &ref.Schema{ID: 65535, Name: "", Encoding: "", Data: nil}
	C0 = &ref.Channel{ID: 0, SchemaID: 0, Topic: "t0", MessageEncoding: "", Metadata: nil}
	C1 = &ref.Channel{ID: 1, SchemaID: 1, Topic: "t1", MessageEncoding: "enc", Metadata: []ref.KV{{"", ""}, {"k", "v"}, {"é", "ü"}}}
	C2 = &ref.Channel{ID: 65535, SchemaID: 65535, Topic: "t0", MessageEncoding: "x", Metadata: []ref.KV{{"a", "b"}}}
)

const MaxT = math.MaxUint64

// TZ is a (log time, payload size) pair of the message alphabet.
type TZ struct {
	T uint64
	Z int
}

// Alphabet fixes the argument domains of the generator.
type Alphabet struct {
	Headers  []ref.Header
	Schemas  []*ref.Schema
	Channels []*ref.Channel
	Msgs     []TZ
	Atts     []*ref.Attachment
	Metas    []*ref.Metadata
}

func payload(tag uint32, z int) []byte {
	b := make([]byte, z)
	for i := range b {
		b[i] = byte(uint32(i)*7 + tag*31 + 1)
	}
	return b
}

func att(name string, z int, lt, ct uint64) *ref.Attachment {
	return &ref.Attachment{LogTime: lt, CreateTime: ct, Name: name, MediaType: "m/" + name, Data: payload(uint32(z)+9, z)}
}

var (
	A0 = att("", 0, 0, MaxT)
	A1 = att("a.bin", 3, 7, 0)
	A2 = att("é", 200, MaxT, 5)
	D0 = &ref.Metadata{Name: "", Metadata: nil}
	D1 = &ref.Metadata{Name: "m", Metadata: []ref.KV{{"k", "v"}}}
	D3 = &ref.Metadata{Name: "m", Metadata: []ref.KV{{"", "e"}, {"b", ""}, {"é", "ü"}}}
)

// Full is the full alphabet of DESIGN §3; Reduced drops ids 65535, 2^63 and the biggest payload.
func Full(thorough bool) Alphabet {
	a := Alphabet{
		Headers:  Headers,
		Schemas:  []*ref.Schema{S1, S2},
		Channels: []*ref.Channel{C0, C1, C2},
		Msgs:     []TZ{{0, 0}, {5, 3}, {MaxT, 70}, {1, 300}},
		Atts:     []*ref.Attachment{A0, A1, A2},
		Metas:    []*ref.Metadata{D0, D1, D3},
	}
	if thorough {
		a.Msgs = nil
		for _, t := range []uint64{0, 1, 5, 1 << 63, MaxT} {
			for _, z := range []int{0, 3, 70, 300} {
				a.Msgs = append(a.Msgs, TZ{t, z})
			}
		}
	}
	return a
}

func Reduced() Alphabet {
	return Alphabet{
		Headers:  Headers[:1],
		Schemas:  []*ref.Schema{S1},
		Channels: []*ref.Channel{C0, C1},
		Msgs:     []TZ{{0, 3}, {5, 70}, {MaxT, 3}},
		Atts:     []*ref.Attachment{A1},
		Metas:    []*ref.Metadata{D1},
	}
}

// Tiny is used where the per-execution cost is high (fault enumeration, compression sweeps).
func Tiny() Alphabet {
	return Alphabet{
		Headers:  Headers[1:],
		Schemas:  []*ref.Schema{S1},
		Channels: []*ref.Channel{C1},
		Msgs:     []TZ{{5, 3}, {0, 70}},
		Atts:     []*ref.Attachment{A1},
		Metas:    []*ref.Metadata{D1},
	}
}

// Headers of the alphabet.
var Headers = []ref.Header{{Profile: "", Library: ""}, {Profile: "ros1", Library: "x; é"}}

// Gen enumerates one legal call sequence of exactly `depth` operations (callers loop over depths
// or use GenUpTo). Legality: a channel needs its schema (or schema 0); a message needs its channel.
func Gen(x *explore.Ctx, a Alphabet, depth int) *Content {
	c := &Content{Header: a.Headers[x.Choose("arg", len(a.Headers))]}
	haveS := map[uint16]bool{}
	var chans []*ref.Channel
	haveC := map[uint16]bool{}
	seq := uint32(0)
	for i := 0; i < depth; i++ {
		// build the menu of legal templates at this point
		type item struct {
			k Kind
			i int
		}
		var menu []item
		for j := range a.Schemas {
			menu = append(menu, item{KSchema, j})
		}
		for j, ch := range a.Channels {
			if ch.SchemaID == 0 || haveS[ch.SchemaID] {
				menu = append(menu, item{KChannel, j})
			}
		}
		for j := range chans {
			menu = append(menu, item{KMessage, j})
		}
		for j := range a.Atts {
			menu = append(menu, item{KAttachment, j})
		}
		for j := range a.Metas {
			menu = append(menu, item{KMetadata, j})
		}
		it := menu[x.Choose("op", len(menu))]
		switch it.k {
		case KSchema:
			s := a.Schemas[it.i]
			haveS[s.ID] = true
			c.Ops = append(c.Ops, Op{Kind: KSchema, S: s})
		case KChannel:
			ch := a.Channels[it.i]
			if !haveC[ch.ID] {
				haveC[ch.ID] = true
				chans = append(chans, ch)
			}
			c.Ops = append(c.Ops, Op{Kind: KChannel, C: ch})
		case KMessage:
			tz := a.Msgs[x.Choose("arg", len(a.Msgs))]
			seq++
			m := &ref.Message{ChannelID: chans[it.i].ID, Sequence: seq, LogTime: tz.T, PublishTime: tz.T ^ 0x55, Data: payload(seq, tz.Z)}
			c.Ops = append(c.Ops, Op{Kind: KMessage, M: m})
		case KAttachment:
			c.Ops = append(c.Ops, Op{Kind: KAttachment, A: a.Atts[it.i]})
		case KMetadata:
			c.Ops = append(c.Ops, Op{Kind: KMetadata, D: a.Metas[it.i]})
		}
		x.Ops++
	}
	return c
}

// GenUpTo enumerates every legal sequence of 0..maxDepth operations.
func GenUpTo(x *explore.Ctx, a Alphabet, maxDepth int) *Content {
	d := x.Choose("op", maxDepth+1)
	return Gen(x, a, d)
}

// Fixed builds a content from explicit ops, numbering messages.
func Fixed(h ref.Header, ops ...Op) *Content {
	c := &Content{Header: h}
	seq := uint32(0)
	for _, o := range ops {
		if o.Kind == KMessage {
			seq++
			if o.M.Sequence == 0 {
				o.M.Sequence = seq
			}
		}
		c.Ops = append(c.Ops, o)
	}
	return c
}

func Sch(s *ref.Schema) Op  { return Op{Kind: KSchema, S: s} }
func Chn(c *ref.Channel) Op { return Op{Kind: KChannel, C: c} }
func Msg(ch uint16, t uint64, z int, seq uint32) Op {
	return Op{Kind: KMessage, M: &ref.Message{ChannelID: ch, Sequence: seq, LogTime: t, PublishTime: t ^ 0x55, Data: payload(seq, z)}}
}
func Att(a *ref.Attachment) Op { return Op{Kind: KAttachment, A: a} }
func Met(d *ref.Metadata) Op   { return Op{Kind: KMetadata, D: d} }

// C2Alt is a channel with id 9 used by the interleaving workloads.
func C2Alt() *ref.Channel {
	return &ref.Channel{ID: 9, SchemaID: 0, Topic: "t9", MessageEncoding: "q", Metadata: []ref.KV{{K: "x", V: "y"}, {K: "a", V: "b"}}}
}
