package explore

import (
	"bufio"
	"encoding/json"
	"fmt"
	"io"
	"os"
	"os/exec"
	"sync"
	"time"
)

// Process-level sharding. The parent explores the choice tree down to prefixes of SplitLen choices
// (running and recording those executions itself) and hands every subtree below such a prefix to
// one of N worker processes (same binary, GOMAXPROCS=1). A worker re-runs the prefix execution
// without recording it and explores everything below it. Nothing is sampled: the union of the
// parent's executions and all subtrees is exactly the tree the in-process explorer walks.

type task struct {
	Whole    bool  `json:"w,omitempty"` // explore the whole tree in the worker (quiet process for memory oracles)
	From     int   `json:"f,omitempty"` // From<To: explore the children Prefix+[alt] for alt in [From,To)
	To       int   `json:"t,omitempty"`
	Prefix   []int `json:"p"`
	Cost     int   `json:"c"`
	Deadline int64 `json:"d"` // unix nanoseconds, 0 = none
	Bound    int   `json:"b"`
}

type taskResult struct {
	Poisoned bool   `json:"x,omitempty"` // the worker must be replaced (code under test left a spinning goroutine behind)
	Stats  Stats    `json:"s"`
	Hashes []uint64 `json:"h,omitempty"`
	Err    string   `json:"e,omitempty"`
}

// Serve is the worker side: it reads tasks from in and writes one result per task to out.
func Serve(body Body, opt Options, in io.Reader, out io.Writer) {
	rd := bufio.NewReaderSize(in, 1<<20)
	wr := bufio.NewWriter(out)
	enc := json.NewEncoder(wr)
	dec := json.NewDecoder(rd)
	if opt.Cost == nil {
		opt.Cost = DefaultCost
	}
	for {
		var t task
		if err := dec.Decode(&t); err != nil {
			return
		}
		o := opt
		o.Bound = t.Bound
		o.Workers = 1
		o.SplitLen = -1
		if t.Deadline != 0 {
			o.Deadline = time.Unix(0, t.Deadline)
		}
		if o.MaxViol == 0 {
			o.MaxViol = 20
		}
		if o.Samples == 0 {
			o.Samples = 2
		}
		if o.Replays == 0 {
			o.Replays = 5
		}
		res := taskResult{}
		func() {
			defer func() {
				if p := recover(); p != nil {
					res.Err = fmt.Sprint(p)
				}
			}()
			e := &explorer{body: body, opt: o, sem: make(chan struct{}, 1), states: map[uint64]struct{}{}}
			e.st.Outcomes = map[string]int64{}
			e.st.Counters = map[string]int64{}
			e.st.PointsByKind = map[string]int64{}
			e.st.BySig = map[string]int64{}
			if t.Whole {
				e.explore(nil, 0)
			} else if t.To > t.From {
				for alt := t.From; alt < t.To; alt++ {
					child := append(append([]int(nil), t.Prefix...), alt)
					e.explore(child, t.Cost)
				}
			} else {
				e.below(t.Prefix, t.Cost)
			}
			e.st.Executions = e.execs.Load()
			e.st.States = int64(len(e.states))
			e.st.Exhaustive = !e.capped.Load()
			res.Stats = e.st
			res.Poisoned = e.poisoned.Load()
			res.Hashes = make([]uint64, 0, len(e.states))
			for h := range e.states {
				res.Hashes = append(res.Hashes, h)
			}
		}()
		if err := enc.Encode(&res); err != nil {
			return
		}
		wr.Flush()
		if res.Poisoned {
			os.Exit(0)
		}
	}
}

// below re-runs the prefix execution (not recorded) and explores every alternative at points
// past the prefix.
func (e *explorer) below(prefix []int, cost int) {
	c := &Ctx{prefix: prefix}
	e.body(c)
	if len(c.Points) < len(prefix) {
		panic(HarnessError{fmt.Sprintf("replay diverged in worker: execution used %d of %d recorded choices", len(c.Points), len(prefix))})
	}
	e.expand(c, len(prefix), len(c.Points), cost)
}

// expand explores the alternatives of execution c at points [from,to).
func (e *explorer) expand(c *Ctx, from, to int, costSoFar int) {
	for i := from; i < to && i < len(c.Points); i++ {
		p := c.Points[i]
		if p.N <= 1 {
			continue
		}
		pc := e.opt.Cost(p.Kind)
		if pc > 0 && costSoFar+pc > e.opt.Bound {
			continue
		}
		for alt := 1; alt < p.N; alt++ {
			if !e.opt.Deadline.IsZero() && time.Now().After(e.opt.Deadline) {
				e.capped.Store(true)
				return
			}
			child := make([]int, i+1)
			for k := 0; k < i; k++ {
				child[k] = c.Points[k].Choice
			}
			child[i] = alt
			e.explore(child, costSoFar+pc)
		}
	}
}

// RunSharded explores body with worker processes started by argv (the worker must call Serve with
// the same body).
func RunSharded(body Body, opt Options, argv []string, env []string) Stats {
	if opt.Cost == nil {
		opt.Cost = DefaultCost
	}
	if opt.Workers <= 0 {
		opt.Workers = 1
	}
	if opt.MaxViol == 0 {
		opt.MaxViol = 20
	}
	if opt.Samples == 0 {
		opt.Samples = 3
	}
	if opt.SplitLen == 0 {
		opt.SplitLen = 6
	}
	if opt.Replays == 0 {
		opt.Replays = 5
	}
	e := &explorer{body: body, opt: opt, sem: make(chan struct{}, 1), states: map[uint64]struct{}{}}
	e.st.Outcomes = map[string]int64{}
	e.st.Counters = map[string]int64{}
	e.st.PointsByKind = map[string]int64{}
	e.st.BySig = map[string]int64{}

	tasks := make(chan task, 64)
	var wg sync.WaitGroup
	var mu sync.Mutex
	var werrs []string
	var wexecs int64
	merge := func(r *taskResult) {
		mu.Lock()
		defer mu.Unlock()
		if r.Err != "" {
			werrs = append(werrs, r.Err)
			return
		}
		s := &r.Stats
		wexecs += s.Executions
		e.mu.Lock()
		e.st.Transitions += s.Transitions
		e.st.Violations += s.Violations
		for k, v := range s.Outcomes {
			e.st.Outcomes[k] += v
		}
		for k, v := range s.Counters {
			e.st.Counters[k] += v
		}
		for k, v := range s.PointsByKind {
			e.st.PointsByKind[k] += v
		}
		for k, v := range s.BySig {
			if e.st.BySig[k] == 0 || !opt.StopOnSig {
				for _, d := range s.Details {
					if d.Sig == k && len(e.st.Details) < opt.MaxViol {
						e.st.Details = append(e.st.Details, d)
						if opt.StopOnSig {
							break
						}
					}
				}
			}
			e.st.BySig[k] += v
		}
		if s.MaxDepth > e.st.MaxDepth {
			e.st.MaxDepth = s.MaxDepth
		}
		if !s.Exhaustive {
			e.capped.Store(true)
		}
		if len(e.st.Samples) < opt.Samples+2 && len(s.Samples) > 0 {
			e.st.Samples = append(e.st.Samples, s.Samples[len(s.Samples)-1])
		}
		e.st.Nondet = append(e.st.Nondet, s.Nondet...)
		for _, h := range r.Hashes {
			e.states[h] = struct{}{}
		}
		e.mu.Unlock()
	}
	for w := 0; w < opt.Workers; w++ {
		wg.Add(1)
		go func() {
			defer wg.Done()
			type proc struct {
				cmd *exec.Cmd
				in  io.WriteCloser
				enc *json.Encoder
				dec *json.Decoder
			}
			start := func() (*proc, error) {
				cmd := exec.Command(argv[0], argv[1:]...)
				cmd.Env = append(os.Environ(), env...)
				cmd.Stderr = os.Stderr
				in, _ := cmd.StdinPipe()
				outp, _ := cmd.StdoutPipe()
				if err := cmd.Start(); err != nil {
					return nil, err
				}
				return &proc{cmd, in, json.NewEncoder(in), json.NewDecoder(bufio.NewReaderSize(outp, 1<<20))}, nil
			}
			p, err := start()
			if err != nil {
				mu.Lock()
				werrs = append(werrs, "cannot start worker: "+err.Error())
				mu.Unlock()
				for range tasks {
				}
				return
			}
			dead := false
			for t := range tasks {
				if dead {
					continue
				}
				if err := p.enc.Encode(&t); err != nil {
					mu.Lock()
					werrs = append(werrs, "worker died: "+err.Error())
					mu.Unlock()
					dead = true
					continue
				}
				var r taskResult
				if err := p.dec.Decode(&r); err != nil {
					mu.Lock()
					werrs = append(werrs, fmt.Sprintf("worker died on prefix %v: %v", t.Prefix, err))
					mu.Unlock()
					dead = true
					continue
				}
				merge(&r)
				if r.Poisoned {
					// the worker retired itself after reporting; the rest of its subtree is not explored
					e.capped.Store(true)
					p.in.Close()
					_ = p.cmd.Wait()
					if p, err = start(); err != nil {
						dead = true
					}
				}
			}
			if p != nil {
				p.in.Close()
				_ = p.cmd.Wait()
			}
		}()
	}
	var dl int64
	if !opt.Deadline.IsZero() {
		dl = opt.Deadline.UnixNano()
	}
	var front func(prefix []int, cost int)
	front = func(prefix []int, cost int) {
		c := &Ctx{prefix: prefix}
		v := e.body(c)
		if len(c.Points) < len(prefix) {
			panic(HarnessError{fmt.Sprintf("replay diverged: execution used %d of %d recorded choices", len(c.Points), len(prefix))})
		}
		e.execs.Add(1)
		e.record(c, v)
		// subtree below the first SplitLen choices of this execution goes to a worker
		if len(c.Points) > opt.SplitLen {
			need := false
			for i := opt.SplitLen; i < len(c.Points); i++ {
				if c.Points[i].N > 1 {
					need = true
					break
				}
			}
			if need {
				tasks <- task{Prefix: c.Choices()[:opt.SplitLen], Cost: cost, Deadline: dl, Bound: opt.Bound}
			}
		}
		if dl != 0 && time.Now().UnixNano() > dl {
			for i := len(prefix); i < len(c.Points) && i < opt.SplitLen; i++ {
				if c.Points[i].N > 1 {
					e.capped.Store(true)
				}
			}
			return
		}
		for i := len(prefix); i < len(c.Points) && i < opt.SplitLen; i++ {
			p := c.Points[i]
			if p.N <= 1 {
				continue
			}
			pc := opt.Cost(p.Kind)
			if pc > 0 && cost+pc > opt.Bound {
				continue
			}
			if i == opt.SplitLen-1 {
				// last split level: the children themselves are executed by the workers
				base := c.Choices()[:i]
				step := (p.N-1)/(4*opt.Workers) + 1
				for from := 1; from < p.N; from += step {
					to := from + step
					if to > p.N {
						to = p.N
					}
					tasks <- task{Prefix: base, From: from, To: to, Cost: cost + pc, Deadline: dl, Bound: opt.Bound}
				}
				continue
			}
			for alt := 1; alt < p.N; alt++ {
				child := make([]int, i+1)
				for k := 0; k < i; k++ {
					child[k] = c.Points[k].Choice
				}
				child[i] = alt
				front(child, cost+pc)
			}
		}
	}
	func() {
		defer close(tasks)
		if opt.Whole {
			tasks <- task{Whole: true, Deadline: dl, Bound: opt.Bound}
			return
		}
		front(nil, 0)
	}()
	wg.Wait()
	e.st.Executions = e.execs.Load() + wexecs
	e.st.States = int64(len(e.states))
	e.st.Exhaustive = !e.capped.Load()
	for _, w := range werrs {
		e.st.Nondet = append(e.st.Nondet, "worker: "+w)
	}
	return e.st
}
