// Package explore is a stateless, deviation-bounded, exhaustive explorer of choice trees.
//
// A body is an ordinary Go function that obtains every bit of variation (operation, argument,
// configuration, environment answer, fault position, schedule) through Ctx.Choose. The explorer
// runs the body with a prefix of recorded choices, answers 0 at every later choice point, records
// the arity and kind of every point, then recurses on every alternative at every point past the
// prefix. Kinds have a cost; the bound is on the total cost (number of deviations) of one
// execution. Executions always run to completion.
package explore

import (
	"fmt"
	"hash/fnv"
	"os"
	"strconv"
	"sort"
	"sync"
	"sync/atomic"
	"time"
)

// Point is one recorded choice point of an execution.
type Point struct {
	Kind   string
	N      int
	Choice int
}

// Ctx is handed to the body; it is the only source of variation.
type Ctx struct {
	prefix []int
	Points []Point
	// Ops counts transitions (operations applied) in this execution; bodies increment it.
	Ops int
	// State is an optional hash of the canonical end state of the execution.
	State uint64
	// Outcome is an optional outcome class label.
	Outcome string
	// Counters are free-form per-execution counters, summed over all executions.
	Counters map[string]int64
	// Note lets the body attach a human-readable rendering of the case (kept for samples).
	Note func() any
	diverged string
}

// HarnessError is raised (as a panic) for errors of the harness itself: out-of-range replay,
// divergence while replaying a prefix. They are never reported as property violations.
type HarnessError struct{ Msg string }

func (e HarnessError) Error() string { return "harness error: " + e.Msg }

// Choose returns a value in [0,n). kind selects the cost class.
func (c *Ctx) Choose(kind string, n int) int {
	if n <= 0 {
		panic(HarnessError{fmt.Sprintf("Choose(%s,%d): arity must be positive", kind, n)})
	}
	i := len(c.Points)
	v := 0
	if i < len(c.prefix) {
		v = c.prefix[i]
		if v >= n || v < 0 {
			panic(HarnessError{fmt.Sprintf("replay choice %d out of range at point %d (%s, arity %d)", v, i, kind, n)})
		}
	}
	c.Points = append(c.Points, Point{kind, n, v})
	return v
}

// Add increments a named counter of the exploration.
func (c *Ctx) Add(name string, n int64) {
	if c.Counters == nil {
		c.Counters = map[string]int64{}
	}
	c.Counters[name] += n
}

// Bool is Choose(kind,2)==1.
func (c *Ctx) Bool(kind string) bool { return c.Choose(kind, 2) == 1 }

// Choices returns the choice vector of the execution so far.
func (c *Ctx) Choices() []int {
	out := make([]int, len(c.Points))
	for i, p := range c.Points {
		out[i] = p.Choice
	}
	return out
}

// Violation describes one failing execution.
type Violation struct {
	Choices []int    `json:"choices"`
	Kinds   []string `json:"kinds"`
	Msg     string   `json:"msg"`
	Sig     string   `json:"sig"`
	Detail  any      `json:"detail,omitempty"`
}

// Verdict is what a body returns: nil for "property held on this execution".
type Verdict struct {
	Sig    string // narrow signature used for known-finding matching and de-duplication
	Msg    string
	// Volatile marks messages that quote measured quantities (heap sizes); the determinism guard
	// then compares signatures only.
	Volatile bool
	// Poison marks a verdict after which this process must not be trusted to run further
	// executions (a goroutine of the code under test is still spinning): the worker stops and
	// is replaced; determinism replays are skipped.
	Poison bool
	Detail any
}

// Body runs one execution.
type Body func(c *Ctx) *Verdict

// CostFn gives the deviation cost of taking alternative alt (>0) at a point of the given kind.
type CostFn func(kind string) int

// DefaultCost: fault, sched and maporder deviations cost 1, everything else is enumerated freely.
func DefaultCost(kind string) int {
	switch kind {
	case "fault", "sched", "maporder":
		return 1
	}
	return 0
}

// Options configures one exploration.
type Options struct {
	Bound     int // maximum total cost per execution (deviation bound)
	Cost      CostFn
	Workers   int
	Deadline  time.Time // zero = none; when passed, no new subtrees are started
	MaxViol   int       // stop collecting violation details after this many (all are counted)
	Samples   int       // number of sample cases to keep
	SplitLen  int       // prefixes up to this length may be handed to other workers
	Replays   int       // times a violating execution is re-run to check determinism (default 5)
	Whole     bool      // sharded mode: run the whole tree inside one worker process
	StopOnSig bool      // keep only the first violation of each signature (all still counted)
}

// Stats is the coverage of one exploration.
type Stats struct {
	Executions   int64
	Transitions  int64
	States       int64
	Outcomes     map[string]int64
	Counters     map[string]int64
	PointsByKind map[string]int64
	MaxDepth     int
	Exhaustive   bool
	Violations   int64
	BySig        map[string]int64
	Details      []Violation
	Samples      []any
	Nondet       []string
}

type explorer struct {
	poisoned atomic.Bool
	body   Body
	opt    Options
	sem    chan struct{}
	wg     sync.WaitGroup
	mu     sync.Mutex
	st     Stats
	states map[uint64]struct{}
	execs  atomic.Int64
	capped atomic.Bool
}

// Run explores the whole tree of body within the bound.
func Run(body Body, opt Options) Stats {
	if opt.Cost == nil {
		opt.Cost = DefaultCost
	}
	if opt.Workers <= 0 {
		opt.Workers = 1
	}
	if opt.MaxViol == 0 {
		opt.MaxViol = 20
	}
	if opt.Samples == 0 {
		opt.Samples = 3
	}
	if opt.SplitLen == 0 {
		opt.SplitLen = 6
	}
	if opt.Replays == 0 {
		opt.Replays = 5
	}
	e := &explorer{body: body, opt: opt, sem: make(chan struct{}, opt.Workers), states: map[uint64]struct{}{}}
	e.st.Outcomes = map[string]int64{}
	e.st.Counters = map[string]int64{}
	e.st.PointsByKind = map[string]int64{}
	e.st.BySig = map[string]int64{}
	e.sem <- struct{}{}
	e.wg.Add(1)
	go func() {
		defer e.wg.Done()
		defer func() { <-e.sem }()
		e.explore(nil, 0)
	}()
	e.wg.Wait()
	e.st.Executions = e.execs.Load()
	e.st.States = int64(len(e.states))
	e.st.Exhaustive = !e.capped.Load()
	sort.Slice(e.st.Details, func(i, j int) bool { return len(e.st.Details[i].Choices) < len(e.st.Details[j].Choices) })
	return e.st
}

// RunOne executes the body once with the given choice vector (replay).
func RunOne(body Body, choices []int) (*Ctx, *Verdict) {
	c := &Ctx{prefix: choices}
	v := body(c)
	if len(c.Points) < len(choices) {
		panic(HarnessError{fmt.Sprintf("replay diverged: execution used %d of %d recorded choices", len(c.Points), len(choices))})
	}
	return c, v
}

var slowMS = func() int64 { n, _ := strconv.Atoi(os.Getenv("VERIF_SLOW_MS")); return int64(n) }()

func (e *explorer) explore(prefix []int, costSoFar int) {
	if e.poisoned.Load() {
		e.capped.Store(true)
		return
	}
	c := &Ctx{prefix: prefix}
	t0 := time.Now()
	v := e.body(c)
	if slowMS > 0 && time.Since(t0).Milliseconds() > slowMS {
		fmt.Fprintf(os.Stderr, "SLOW %dms choices=%v\n", time.Since(t0).Milliseconds(), c.Choices())
	}
	if len(c.Points) < len(prefix) {
		panic(HarnessError{fmt.Sprintf("replay diverged: execution used %d of %d recorded choices", len(c.Points), len(prefix))})
	}
	e.execs.Add(1)
	e.record(c, v)
	if !e.opt.Deadline.IsZero() && time.Now().After(e.opt.Deadline) {
		if len(c.Points) > len(prefix) {
			for i := len(prefix); i < len(c.Points); i++ {
				if c.Points[i].N > 1 {
					e.capped.Store(true)
					return
				}
			}
		}
		return
	}
	for i := len(prefix); i < len(c.Points); i++ {
		p := c.Points[i]
		if p.N <= 1 {
			continue
		}
		cost := costSoFar + e.opt.Cost(p.Kind)
		if cost > e.opt.Bound && e.opt.Cost(p.Kind) > 0 {
			continue
		}
		for alt := 1; alt < p.N; alt++ {
			child := make([]int, i+1)
			for k := 0; k < i; k++ {
				child[k] = c.Points[k].Choice
			}
			child[i] = alt
			if len(child) <= e.opt.SplitLen {
				select {
				case e.sem <- struct{}{}:
					e.wg.Add(1)
					go func(ch []int, cs int) {
						defer e.wg.Done()
						defer func() { <-e.sem }()
						e.explore(ch, cs)
					}(child, cost)
					continue
				default:
				}
			}
			e.explore(child, cost)
		}
	}
}

func (e *explorer) record(c *Ctx, v *Verdict) {
	e.mu.Lock()
	defer e.mu.Unlock()
	e.st.Transitions += int64(c.Ops)
	if c.State != 0 {
		e.states[c.State] = struct{}{}
	}
	if c.Outcome != "" {
		e.st.Outcomes[c.Outcome]++
	}
	for _, p := range c.Points {
		e.st.PointsByKind[p.Kind]++
	}
	for k, n := range c.Counters {
		e.st.Counters[k] += n
	}
	if len(c.Points) > e.st.MaxDepth {
		e.st.MaxDepth = len(c.Points)
	}
	if len(e.st.Samples) < e.opt.Samples && c.Note != nil {
		// spread the samples: take executions 1, 10, 100, ...
		n := e.execs.Load()
		if n == 1 || n == 37 || n == 1009 || len(e.st.Samples) == 0 {
			e.st.Samples = append(e.st.Samples, map[string]any{"choices": c.Choices(), "case": c.Note()})
		}
	}
	if v == nil {
		return
	}
	e.st.Violations++
	e.st.BySig[v.Sig]++
	if e.opt.StopOnSig && e.st.BySig[v.Sig] > 1 {
		return
	}
	if len(e.st.Details) >= e.opt.MaxViol {
		return
	}
	kinds := make([]string, len(c.Points))
	for i, p := range c.Points {
		kinds[i] = p.Kind
	}
	viol := Violation{Choices: c.Choices(), Kinds: kinds, Msg: v.Msg, Sig: v.Sig, Detail: v.Detail}
	e.st.Details = append(e.st.Details, viol)
	if v.Poison {
		e.poisoned.Store(true)
		return
	}
	// determinism guard: the same choice vector must give the same verdict every time.
	e.mu.Unlock()
	for r := 0; r < e.opt.Replays; r++ {
		_, v2 := RunOne(e.body, viol.Choices)
		if v2 == nil || v2.Sig != v.Sig || (v2.Msg != v.Msg && !v.Volatile) {
			e.mu.Lock()
			e.st.Nondet = append(e.st.Nondet, fmt.Sprintf("choices %v: first verdict %q, replay verdict %v", viol.Choices, v.Msg, v2))
			e.mu.Unlock()
			break
		}
	}
	e.mu.Lock()
}

// Hash is a convenience FNV-1a hash for state canonicalisation.
func Hash(parts ...[]byte) uint64 {
	h := fnv.New64a()
	for _, p := range parts {
		h.Write(p)
		h.Write([]byte{0xff})
	}
	v := h.Sum64()
	if v == 0 {
		v = 1
	}
	return v
}

// Enumerate returns the choice vector of every execution of gen (no cost bound), in DFS order.
// gen must be cheap: it is meant for case generators whose cases are then run elsewhere
// (isolated workers address a case by its index in this list).
func Enumerate(gen func(c *Ctx)) [][]int {
	var out [][]int
	var rec func(prefix []int)
	rec = func(prefix []int) {
		c := &Ctx{prefix: prefix}
		gen(c)
		out = append(out, c.Choices())
		for i := len(prefix); i < len(c.Points); i++ {
			for alt := 1; alt < c.Points[i].N; alt++ {
				child := make([]int, i+1)
				for k := 0; k < i; k++ {
					child[k] = c.Points[k].Choice
				}
				child[i] = alt
				rec(child)
			}
		}
	}
	rec(nil)
	return out
}

// Replay returns a context that answers with the given choice vector.
func Replay(choices []int) *Ctx { return &Ctx{prefix: choices} }
