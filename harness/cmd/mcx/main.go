// mcx runs one property check: mcx <Cxx> <quick|thorough> [--replay file]
package main

import (
	"encoding/json"
	"fmt"
	"os"
	"runtime/pprof"

	"verif/harness/checks"
	"verif/harness/chk"
	"verif/harness/iso"
)

var registry = map[string]func(*chk.Run){
	"C01": checks.C01,
	"C02": checks.C02,
	"C03": checks.C03,
	"C04": checks.C04,
	"C05": checks.C05,
	"C07": checks.C07,
	"C08": checks.C08,
	"C09": checks.C09,
	"C10": checks.C10,
	"C11": checks.C11,
	"C12": checks.C12,
	"C13": checks.C13,
	"C14": checks.C14,
	"C15": checks.C15,
	"C16": checks.C16,
	"C17": checks.C17,
	"C18": checks.C18,
	"C19": checks.C19,
	"C20": checks.C20,
	"C06": checks.C06,
}

func main() {
	if os.Getenv("VERIF_ISO_WORKER") != "" || os.Getenv("VERIF_FENCE") != "" {
		// before anything else allocates: see iso.FenceHeap
		iso.FenceHeap()
	}
	if len(os.Args) < 3 {
		fmt.Fprintln(os.Stderr, "usage: mcx <Cxx> <quick|thorough> [--replay file]")
		os.Exit(2)
	}
	id, tier := os.Args[1], os.Args[2]
	fn, ok := registry[id]
	if !ok {
		fmt.Fprintln(os.Stderr, "unknown check", id)
		os.Exit(2)
	}
	if pf := os.Getenv("VERIF_CPUPROFILE"); pf != "" && os.Getenv("VERIF_WORKER_PHASE") == "" {
		f, _ := os.Create(pf)
		_ = pprof.StartCPUProfile(f)
		defer pprof.StopCPUProfile()
	}
	r := chk.New(id, tier)
	if len(os.Args) >= 5 && os.Args[3] == "--replay" {
		b, err := os.ReadFile(os.Args[4])
		if err != nil {
			fmt.Fprintln(os.Stderr, err)
			os.Exit(2)
		}
		rf := &chk.ReplayFile{}
		if err := json.Unmarshal(b, rf); err != nil {
			fmt.Fprintln(os.Stderr, err)
			os.Exit(2)
		}
		r.Replay = rf
	}
	defer func() {
		if p := recover(); p != nil {
			fmt.Fprintln(os.Stderr, "HARNESS ERROR:", p)
			os.Exit(2)
		}
	}()
	fn(r)
	pprof.StopCPUProfile()
	r.Finish()
}
