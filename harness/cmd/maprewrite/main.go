// maprewrite generates a `go build -overlay` file in which every `for ... := range X` over a
// map-typed X in a package is rewritten to range over verifMapKeys(site, X): the keys in a
// canonical (sorted) order permuted by a hook the harness controls. It is regenerated from the
// working tree on every run, so a map range introduced by a change is controlled too.
//
// usage: maprewrite <package dir> <out dir>   (prints the number of sites rewritten / unresolved)
package main

import (
	"bytes"
	"encoding/json"
	"fmt"
	"go/ast"
	"go/format"
	"go/importer"
	"go/parser"
	"go/token"
	"go/types"
	"os"
	"path/filepath"
	"strings"
)

type lenient struct{ def types.Importer }

func (l lenient) Import(path string) (*types.Package, error) {
	if p, err := l.def.Import(path); err == nil {
		return p, nil
	}
	// unknown import: an empty package; expressions using it simply stay untyped
	return types.NewPackage(path, filepath.Base(path)), nil
}

const helper = `//go:build verif

package %s

import "sort"

// VerifMapOrder is set by the verification harness: it returns the permutation to apply to the n
// canonically sorted keys of the map ranged over at site (nil = identity).
var VerifMapOrder func(site string, n int) []int

type verifOrdered interface {
	~int | ~int8 | ~int16 | ~int32 | ~int64 | ~uint | ~uint8 | ~uint16 | ~uint32 | ~uint64 | ~uintptr | ~float32 | ~float64 | ~string
}

// VerifYield is set by the verification harness: it is called before every statement that touches
// package-level state which some function of the package modifies (VerifYieldSites such statements
// exist in this build), so that a cooperative scheduler can switch instances exactly there.
var VerifYield func(site string)

const VerifYieldSites = %d

func verifYield(site string) {
	if VerifYield != nil {
		VerifYield(site)
	}
}

func verifMapKeys[K verifOrdered, V any](site string, m map[K]V) []K {
	keys := make([]K, 0, len(m))
	for k := range m {
		keys = append(keys, k)
	}
	sort.Slice(keys, func(i, j int) bool { return keys[i] < keys[j] })
	if VerifMapOrder != nil {
		if p := VerifMapOrder(site, len(keys)); p != nil {
			out := make([]K, len(keys))
			for i, j := range p {
				out[i] = keys[j]
			}
			return out
		}
	}
	return keys
}
`

func main() {
	dir, out := os.Args[1], os.Args[2]
	fset := token.NewFileSet()
	pkgs, err := parser.ParseDir(fset, dir, func(fi os.FileInfo) bool {
		return !strings.HasSuffix(fi.Name(), "_test.go") && fi.Name() != "verif_maporder.go"
	}, parser.ParseComments)
	if err != nil {
		fmt.Fprintln(os.Stderr, err)
		os.Exit(2)
	}
	overlay := map[string]string{}
	sites, unresolved, yields := 0, 0, 0
	for name, pkg := range pkgs {
		var files []*ast.File
		var names []string
		for fn, f := range pkg.Files {
			files = append(files, f)
			names = append(names, fn)
		}
		info := &types.Info{Types: map[ast.Expr]types.TypeAndValue{}, Uses: map[*ast.Ident]types.Object{}}
		conf := types.Config{Importer: lenient{importer.Default()}, Error: func(error) {}}
		tpkg, _ := conf.Check(name, fset, files, info)
		mutable := mutableGlobals(tpkg, info, files)
		for v := range mutable {
			fmt.Printf("mutable package-level state: %s\n", v.Name())
		}
		changedYield := make([]bool, len(files))
		if len(mutable) > 0 {
			reach := reachers(tpkg, info, files, mutable)
			for i, f := range files {
				changedYield[i] = insertYields(fset, f, tpkg, info, reach, &yields)
			}
		}
		for i, f := range files {
			changed := changedYield[i]
			ast.Inspect(f, func(n ast.Node) bool {
				rs, ok := n.(*ast.RangeStmt)
				if !ok {
					return true
				}
				tv, ok := info.Types[rs.X]
				if !ok || tv.Type == nil {
					unresolved++
					return true
				}
				if _, isMap := tv.Type.Underlying().(*types.Map); !isMap {
					return true
				}
				if rs.Tok != token.DEFINE {
					unresolved++
					return true
				}
				pos := fset.Position(rs.Pos())
				site := fmt.Sprintf("%s:%d", filepath.Base(pos.Filename), pos.Line)
				x := rs.X
				keyIdent, _ := rs.Key.(*ast.Ident)
				var valIdent *ast.Ident
				if rs.Value != nil {
					valIdent, _ = rs.Value.(*ast.Ident)
				}
				kname := "verifKey"
				if keyIdent != nil && keyIdent.Name != "_" {
					kname = keyIdent.Name
				}
				var xbuf bytes.Buffer
				_ = format.Node(&xbuf, fset, x)
				call, _ := parser.ParseExpr(fmt.Sprintf("verifMapKeys(%q, %s)", site, xbuf.String()))
				rs.Key = ast.NewIdent("_")
				rs.Value = ast.NewIdent(kname)
				rs.X = call
				if valIdent != nil && valIdent.Name != "_" {
					stmt := &ast.AssignStmt{Lhs: []ast.Expr{ast.NewIdent(valIdent.Name)}, Tok: token.DEFINE,
						Rhs: []ast.Expr{&ast.IndexExpr{X: x, Index: ast.NewIdent(kname)}}}
					rs.Body.List = append([]ast.Stmt{stmt}, rs.Body.List...)
				}
				sites++
				changed = true
				fmt.Printf("site %s\n", site)
				return true
			})
			if changed {
				var buf bytes.Buffer
				if err := format.Node(&buf, fset, f); err != nil {
					fmt.Fprintln(os.Stderr, err)
					os.Exit(2)
				}
				dst := filepath.Join(out, filepath.Base(names[i]))
				_ = os.WriteFile(dst, buf.Bytes(), 0o644)
				abs, _ := filepath.Abs(names[i])
				overlay[abs] = dst
			}
		}
		hp := filepath.Join(out, "verif_maporder.go")
		_ = os.WriteFile(hp, []byte(fmt.Sprintf(helper, name, yields)), 0o644)
		absdir, _ := filepath.Abs(dir)
		overlay[filepath.Join(absdir, "verif_maporder.go")] = hp
	}
	b, _ := json.MarshalIndent(map[string]any{"Replace": overlay}, "", " ")
	_ = os.WriteFile(filepath.Join(out, "overlay.json"), b, 0o644)
	fmt.Printf("rewritten %d unresolved %d shared-state-yields %d\n", sites, unresolved, yields)
}

// rootIdent strips index, slice, selector, star and paren expressions down to the identifier the
// expression is rooted in.
func rootIdent(e ast.Expr) *ast.Ident {
	for {
		switch x := e.(type) {
		case *ast.Ident:
			return x
		case *ast.IndexExpr:
			e = x.X
		case *ast.SliceExpr:
			e = x.X
		case *ast.SelectorExpr:
			e = x.X
		case *ast.StarExpr:
			e = x.X
		case *ast.ParenExpr:
			e = x.X
		default:
			return nil
		}
	}
}

func pkgVar(tpkg *types.Package, info *types.Info, id *ast.Ident) *types.Var {
	if id == nil || tpkg == nil {
		return nil
	}
	v, ok := info.Uses[id].(*types.Var)
	if !ok || v.Parent() != tpkg.Scope() {
		return nil
	}
	return v
}

// mutableGlobals returns the package-level variables that some function body modifies: assigned to
// (directly or through an index, slice, field or pointer), incremented, address taken, used as the
// receiver of a method call (sync.Pool.Get/Put, bytes.Buffer.Write ...), or as the destination of
// copy/append. Read-only tables and sentinel errors are not in the set.
func mutableGlobals(tpkg *types.Package, info *types.Info, files []*ast.File) map[*types.Var]bool {
	m := map[*types.Var]bool{}
	mark := func(e ast.Expr) {
		if v := pkgVar(tpkg, info, rootIdent(e)); v != nil {
			m[v] = true
		}
	}
	for _, f := range files {
		for _, d := range f.Decls {
			fd, ok := d.(*ast.FuncDecl)
			if !ok || fd.Body == nil {
				continue
			}
			ast.Inspect(fd.Body, func(n ast.Node) bool {
				switch x := n.(type) {
				case *ast.AssignStmt:
					if x.Tok != token.DEFINE {
						for _, l := range x.Lhs {
							mark(l)
						}
					}
				case *ast.IncDecStmt:
					mark(x.X)
				case *ast.UnaryExpr:
					if x.Op == token.AND {
						mark(x.X)
					}
				case *ast.CallExpr:
					if se, ok := x.Fun.(*ast.SelectorExpr); ok {
						if v := pkgVar(tpkg, info, rootIdent(se.X)); v != nil {
							if _, isIface := v.Type().Underlying().(*types.Interface); !isIface {
								m[v] = true // method call on a package-level value (not on an error/interface sentinel)
							}
						}
					}
					if id, ok := x.Fun.(*ast.Ident); ok && (id.Name == "copy" || id.Name == "append") && len(x.Args) > 0 {
						mark(x.Args[0])
					}
				}
				return true
			})
		}
	}
	return m
}

// reachers returns the functions of the package whose body mentions a mutable global, closed under
// "is called by": a caller may hold a value that aliases the shared state after the callee returned
// (a slice handed out by a pool, a pointer into a package-level table), so its statements are
// interleaving points too.
func reachers(tpkg *types.Package, info *types.Info, files []*ast.File, mutable map[*types.Var]bool) map[*ast.FuncDecl]bool {
	decls := map[*types.Func]*ast.FuncDecl{}
	var all []*ast.FuncDecl
	for _, f := range files {
		for _, d := range f.Decls {
			if fd, ok := d.(*ast.FuncDecl); ok && fd.Body != nil {
				all = append(all, fd)
			}
		}
	}
	// *types.Func of each declaration: found through the Defs-less route (name lookup in scope / method sets is
	// overkill here): match by position of the name identifier
	byPos := map[token.Pos]*ast.FuncDecl{}
	for _, fd := range all {
		byPos[fd.Name.Pos()] = fd
	}
	calls := map[*ast.FuncDecl][]*types.Func{}
	in := map[*ast.FuncDecl]bool{}
	for _, fd := range all {
		ast.Inspect(fd.Body, func(n ast.Node) bool {
			switch x := n.(type) {
			case *ast.Ident:
				if v := pkgVar(tpkg, info, x); v != nil && mutable[v] {
					in[fd] = true
				}
				if fn, ok := info.Uses[x].(*types.Func); ok && fn.Pkg() == tpkg {
					calls[fd] = append(calls[fd], fn)
					if d, ok := byPos[fn.Pos()]; ok {
						decls[fn] = d
					}
				}
			}
			return true
		})
	}
	for changed := true; changed; {
		changed = false
		for _, fd := range all {
			if in[fd] {
				continue
			}
			for _, fn := range calls[fd] {
				if d := decls[fn]; d != nil && in[d] {
					in[fd] = true
					changed = true
					break
				}
			}
		}
	}
	return in
}

// insertYields puts verifYield(site) before every statement of every function that can reach
// package-level state some function modifies (see reachers).
func insertYields(fset *token.FileSet, f *ast.File, tpkg *types.Package, info *types.Info, reach map[*ast.FuncDecl]bool, count *int) bool {
	changed := false
	rewrite := func(fn string, list []ast.Stmt) []ast.Stmt {
		var out []ast.Stmt
		for _, s := range list {
			_, isDecl := s.(*ast.DeclStmt)
			_, isCase := s.(*ast.CaseClause) // the body of a switch/select is a block whose "statements" are its clauses
			_, isComm := s.(*ast.CommClause)
			if !isDecl && !isCase && !isComm {
				pos := fset.Position(s.Pos())
				site := fmt.Sprintf("%s:%d %s", filepath.Base(pos.Filename), pos.Line, fn)
				call, _ := parser.ParseExpr(fmt.Sprintf("verifYield(%q)", site))
				out = append(out, &ast.ExprStmt{X: call})
				*count++
				changed = true
			}
			out = append(out, s)
		}
		return out
	}
	for _, d := range f.Decls {
		fd, ok := d.(*ast.FuncDecl)
		if !ok || fd.Body == nil || !reach[fd] {
			continue
		}
		fmt.Printf("yields in %s\n", fd.Name.Name)
		ast.Inspect(fd.Body, func(n ast.Node) bool {
			switch x := n.(type) {
			case *ast.BlockStmt:
				x.List = rewrite(fd.Name.Name, x.List)
			case *ast.CaseClause:
				x.Body = rewrite(fd.Name.Name, x.Body)
			case *ast.CommClause:
				x.Body = rewrite(fd.Name.Name, x.Body)
			}
			return true
		})
	}
	return changed
}
