// maprewrite generates a `go build -overlay` file in which every `for ... := range X` over a
// map-typed X in a package is rewritten to range over verifMapKeys(site, X): the keys in a
// canonical (sorted) order permuted by a hook the harness controls. It is regenerated from the
// working tree on every run, so a map range introduced by a change is controlled too.
//
// usage: maprewrite <package dir> <out dir>   (prints the number of sites rewritten / unresolved)
package main

import (
	"bytes"
	"encoding/json"
	"fmt"
	"go/ast"
	"go/format"
	"go/importer"
	"go/parser"
	"go/token"
	"go/types"
	"os"
	"path/filepath"
	"strings"
)

type lenient struct{ def types.Importer }

func (l lenient) Import(path string) (*types.Package, error) {
	if p, err := l.def.Import(path); err == nil {
		return p, nil
	}
	// unknown import: an empty package; expressions using it simply stay untyped
	return types.NewPackage(path, filepath.Base(path)), nil
}

const helper = `//go:build verif

package %s

import "sort"

// VerifMapOrder is set by the verification harness: it returns the permutation to apply to the n
// canonically sorted keys of the map ranged over at site (nil = identity).
var VerifMapOrder func(site string, n int) []int

type verifOrdered interface {
	~int | ~int8 | ~int16 | ~int32 | ~int64 | ~uint | ~uint8 | ~uint16 | ~uint32 | ~uint64 | ~uintptr | ~float32 | ~float64 | ~string
}

func verifMapKeys[K verifOrdered, V any](site string, m map[K]V) []K {
	keys := make([]K, 0, len(m))
	for k := range m {
		keys = append(keys, k)
	}
	sort.Slice(keys, func(i, j int) bool { return keys[i] < keys[j] })
	if VerifMapOrder != nil {
		if p := VerifMapOrder(site, len(keys)); p != nil {
			out := make([]K, len(keys))
			for i, j := range p {
				out[i] = keys[j]
			}
			return out
		}
	}
	return keys
}
`

func main() {
	dir, out := os.Args[1], os.Args[2]
	fset := token.NewFileSet()
	pkgs, err := parser.ParseDir(fset, dir, func(fi os.FileInfo) bool {
		return !strings.HasSuffix(fi.Name(), "_test.go") && fi.Name() != "verif_maporder.go"
	}, parser.ParseComments)
	if err != nil {
		fmt.Fprintln(os.Stderr, err)
		os.Exit(2)
	}
	overlay := map[string]string{}
	sites, unresolved := 0, 0
	for name, pkg := range pkgs {
		var files []*ast.File
		var names []string
		for fn, f := range pkg.Files {
			files = append(files, f)
			names = append(names, fn)
		}
		info := &types.Info{Types: map[ast.Expr]types.TypeAndValue{}}
		conf := types.Config{Importer: lenient{importer.Default()}, Error: func(error) {}}
		_, _ = conf.Check(name, fset, files, info)
		for i, f := range files {
			changed := false
			ast.Inspect(f, func(n ast.Node) bool {
				rs, ok := n.(*ast.RangeStmt)
				if !ok {
					return true
				}
				tv, ok := info.Types[rs.X]
				if !ok || tv.Type == nil {
					unresolved++
					return true
				}
				if _, isMap := tv.Type.Underlying().(*types.Map); !isMap {
					return true
				}
				if rs.Tok != token.DEFINE {
					unresolved++
					return true
				}
				pos := fset.Position(rs.Pos())
				site := fmt.Sprintf("%s:%d", filepath.Base(pos.Filename), pos.Line)
				x := rs.X
				keyIdent, _ := rs.Key.(*ast.Ident)
				var valIdent *ast.Ident
				if rs.Value != nil {
					valIdent, _ = rs.Value.(*ast.Ident)
				}
				kname := "verifKey"
				if keyIdent != nil && keyIdent.Name != "_" {
					kname = keyIdent.Name
				}
				var xbuf bytes.Buffer
				_ = format.Node(&xbuf, fset, x)
				call, _ := parser.ParseExpr(fmt.Sprintf("verifMapKeys(%q, %s)", site, xbuf.String()))
				rs.Key = ast.NewIdent("_")
				rs.Value = ast.NewIdent(kname)
				rs.X = call
				if valIdent != nil && valIdent.Name != "_" {
					stmt := &ast.AssignStmt{Lhs: []ast.Expr{ast.NewIdent(valIdent.Name)}, Tok: token.DEFINE,
						Rhs: []ast.Expr{&ast.IndexExpr{X: x, Index: ast.NewIdent(kname)}}}
					rs.Body.List = append([]ast.Stmt{stmt}, rs.Body.List...)
				}
				sites++
				changed = true
				fmt.Printf("site %s\n", site)
				return true
			})
			if changed {
				var buf bytes.Buffer
				if err := format.Node(&buf, fset, f); err != nil {
					fmt.Fprintln(os.Stderr, err)
					os.Exit(2)
				}
				dst := filepath.Join(out, filepath.Base(names[i]))
				_ = os.WriteFile(dst, buf.Bytes(), 0o644)
				abs, _ := filepath.Abs(names[i])
				overlay[abs] = dst
			}
		}
		hp := filepath.Join(out, "verif_maporder.go")
		_ = os.WriteFile(hp, []byte(fmt.Sprintf(helper, name)), 0o644)
		absdir, _ := filepath.Abs(dir)
		overlay[filepath.Join(absdir, "verif_maporder.go")] = hp
	}
	b, _ := json.MarshalIndent(map[string]any{"Replace": overlay}, "", " ")
	_ = os.WriteFile(filepath.Join(out, "overlay.json"), b, 0o644)
	fmt.Printf("rewritten %d unresolved %d\n", sites, unresolved)
}
