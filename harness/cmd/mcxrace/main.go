// mcxrace is the free-running -race pass of check C13: 16 goroutines with independent writers and readers.
package main

import (
	"fmt"
	"os"

	"verif/harness/c13child"
)

func main() {
	rounds := 3
	if len(os.Args) > 1 && os.Args[1] == "thorough" {
		rounds = 30
	}
	if _, err := c13child.Digest(16, rounds); err != nil {
		fmt.Println("ERROR", err)
		os.Exit(1)
	}
	fmt.Println("RACE-PASS-OK")
}
