package ref

import (
	"bytes"
	"encoding/binary"
	"fmt"
	"hash/crc32"

	"github.com/klauspost/compress/zstd"
	"github.com/pierrec/lz4/v4"
)

// ---------------------------------------------------------------- primitive encoders

type wbuf struct{ b []byte }

func (w *wbuf) u8(v byte)     { w.b = append(w.b, v) }
func (w *wbuf) u16(v uint16)  { w.b = binary.LittleEndian.AppendUint16(w.b, v) }
func (w *wbuf) u32(v uint32)  { w.b = binary.LittleEndian.AppendUint32(w.b, v) }
func (w *wbuf) u64(v uint64)  { w.b = binary.LittleEndian.AppendUint64(w.b, v) }
func (w *wbuf) str(s string)  { w.u32(uint32(len(s))); w.b = append(w.b, s...) }
func (w *wbuf) blob(b []byte) { w.u32(uint32(len(b))); w.b = append(w.b, b...) }
func (w *wbuf) strmap(kv []KV) {
	var in wbuf
	for _, e := range kv {
		in.str(e.K)
		in.str(e.V)
	}
	w.blob(in.b)
}

func BodyHeader(h *Header) []byte { var w wbuf; w.str(h.Profile); w.str(h.Library); return w.b }
func BodyFooter(f *Footer) []byte {
	var w wbuf
	w.u64(f.SummaryStart)
	w.u64(f.SummaryOffsetStart)
	w.u32(f.SummaryCRC)
	return w.b
}
func BodySchema(s *Schema) []byte {
	var w wbuf
	w.u16(s.ID)
	w.str(s.Name)
	w.str(s.Encoding)
	w.blob(s.Data)
	return w.b
}
func BodyChannel(c *Channel) []byte {
	var w wbuf
	w.u16(c.ID)
	w.u16(c.SchemaID)
	w.str(c.Topic)
	w.str(c.MessageEncoding)
	w.strmap(c.Metadata)
	return w.b
}
func BodyMessage(m *Message) []byte {
	var w wbuf
	w.u16(m.ChannelID)
	w.u32(m.Sequence)
	w.u64(m.LogTime)
	w.u64(m.PublishTime)
	w.b = append(w.b, m.Data...)
	return w.b
}

// BodyAttachment encodes an attachment; the CRC is computed over the preceding fields unless
// a.CRC is non-zero and keepCRC is set.
func BodyAttachment(a *Attachment, keepCRC bool) []byte {
	var w wbuf
	w.u64(a.LogTime)
	w.u64(a.CreateTime)
	w.str(a.Name)
	w.str(a.MediaType)
	w.u64(uint64(len(a.Data)))
	w.b = append(w.b, a.Data...)
	crc := crc32.ChecksumIEEE(w.b)
	if keepCRC {
		crc = a.CRC
	}
	w.u32(crc)
	return w.b
}
func BodyMetadata(m *Metadata) []byte { var w wbuf; w.str(m.Name); w.strmap(m.Metadata); return w.b }
func BodyMessageIndex(mi *MessageIndex) []byte {
	var w wbuf
	w.u16(mi.ChannelID)
	w.u32(uint32(16 * len(mi.Entries)))
	for _, e := range mi.Entries {
		w.u64(e.Time)
		w.u64(e.Offset)
	}
	return w.b
}
func BodyChunkIndex(ci *ChunkIndex) []byte {
	var w wbuf
	w.u64(ci.StartTime)
	w.u64(ci.EndTime)
	w.u64(ci.ChunkStart)
	w.u64(ci.ChunkLength)
	w.u32(uint32(10 * len(ci.MessageIndexOffsets)))
	for _, o := range ci.MessageIndexOffsets {
		w.u16(o.ChannelID)
		w.u64(o.Offset)
	}
	w.u64(ci.MessageIndexLength)
	w.str(ci.Compression)
	w.u64(ci.CompressedSize)
	w.u64(ci.Uncompressed)
	return w.b
}
func BodyAttachmentIndex(a *AttachmentIndex) []byte {
	var w wbuf
	w.u64(a.Offset)
	w.u64(a.Length)
	w.u64(a.LogTime)
	w.u64(a.CreateTime)
	w.u64(a.DataSize)
	w.str(a.Name)
	w.str(a.MediaType)
	return w.b
}
func BodyStatistics(s *Statistics) []byte {
	var w wbuf
	w.u64(s.MessageCount)
	w.u16(s.SchemaCount)
	w.u32(s.ChannelCount)
	w.u32(s.AttachmentCount)
	w.u32(s.MetadataCount)
	w.u32(s.ChunkCount)
	w.u64(s.StartTime)
	w.u64(s.EndTime)
	w.u32(uint32(10 * len(s.ChannelCounts)))
	for _, c := range s.ChannelCounts {
		w.u16(c.ChannelID)
		w.u64(c.Count)
	}
	return w.b
}
func BodyMetadataIndex(m *MetadataIndex) []byte {
	var w wbuf
	w.u64(m.Offset)
	w.u64(m.Length)
	w.str(m.Name)
	return w.b
}
func BodySummaryOffset(s *SummaryOffset) []byte {
	var w wbuf
	w.u8(s.GroupOpcode)
	w.u64(s.Start)
	w.u64(s.Len)
	return w.b
}
func BodyDataEnd(crc uint32) []byte { var w wbuf; w.u32(crc); return w.b }

var zenc, _ = zstd.NewWriter(nil, zstd.WithEncoderConcurrency(1), zstd.WithEncoderLevel(zstd.SpeedFastest))

// Compress compresses a chunk payload.
func Compress(compression string, b []byte) ([]byte, error) {
	if c, ok := Codecs[compression]; ok {
		return c.Compress(b)
	}
	switch compression {
	case "":
		return b, nil
	case "zstd":
		return zenc.EncodeAll(b, nil), nil
	case "lz4":
		var out bytes.Buffer
		w := lz4.NewWriter(&out)
		// 64 KiB frame blocks for small payloads: readers size their block buffers from the frame
		// header, and the default (4 MiB, cleared on every decoder set-up) dominated whole checks
		if len(b) <= 64<<10 {
			if err := w.Apply(lz4.BlockSizeOption(lz4.Block64Kb)); err != nil {
				return nil, err
			}
		}
		if _, err := w.Write(b); err != nil {
			return nil, err
		}
		if err := w.Close(); err != nil {
			return nil, err
		}
		return out.Bytes(), nil
	}
	return nil, fmt.Errorf("unknown compression %q", compression)
}

// ---------------------------------------------------------------- file encoder

// RawRec is an already encoded record body with its opcode.
type RawRec struct {
	Op   byte
	Body []byte
}

func RSchema(s *Schema) RawRec         { return RawRec{OpSchema, BodySchema(s)} }
func RChannel(c *Channel) RawRec       { return RawRec{OpChannel, BodyChannel(c)} }
func RMessage(m *Message) RawRec       { return RawRec{OpMessage, BodyMessage(m)} }
func RAttachment(a *Attachment) RawRec { return RawRec{OpAttachment, BodyAttachment(a, false)} }
func RMetadata(m *Metadata) RawRec     { return RawRec{OpMetadata, BodyMetadata(m)} }

// ChunkSpec describes one chunk to emit.
type ChunkSpec struct {
	Recs        []RawRec
	Compression string
}

// Item is one top-level element of the data section: a record or a chunk.
type Item struct {
	Rec   *RawRec
	Chunk *ChunkSpec
}

// Layout selects everything a producer may legally choose.
type Layout struct {
	NoMagic          bool
	Pad              []byte          // tail appended to every extensible top-level record
	PadOps           map[byte][]byte // per-opcode tails (override Pad)
	PadInChunk       bool            // also pad schema/channel records inside chunks
	MessageIndex     bool
	EmptyMIForChans  bool // emit an empty message index for channels defined in a chunk without messages (TypeScript behaviour)
	ChunkIndex       bool
	AttachmentIndex  bool
	MetadataIndex    bool
	Statistics       bool
	RepeatSchemas    bool
	RepeatChannels   bool
	SummaryOffsets   bool
	ChunkCRC         bool
	DataCRC          bool
	SummaryCRC       bool
	GroupOrder       []byte           // summary groups in order; nil = TypeScript generator order
	SummaryExtras    map[int][]RawRec // records inserted before group i (len(GroupOrder) = after the last group, +1 = after the summary offsets)
	StatsChannelOrder []uint16        // order of the per-channel counts (nil = first-message order)
}

// TSGroupOrder is the group order of tests/conformance/scripts/generate-inputs.ts.
var TSGroupOrder = []byte{OpSchema, OpChannel, OpStatistics, OpMetadataIndex, OpAttachmentIndex, OpChunkIndex}

// GoGroupOrder is the order the Go writer uses.
var GoGroupOrder = []byte{OpSchema, OpChannel, OpStatistics, OpChunkIndex, OpAttachmentIndex, OpMetadataIndex}

// Encoded is the result of EncodeFile with the locations of what was emitted.
type Encoded struct {
	Bytes        []byte
	ChunkOffsets []int
}

type enc struct {
	b   []byte
	lay *Layout
}

func extensible(op byte) bool {
	switch op {
	case OpMessage, OpChunk, OpDataEnd, OpFooter:
		return false
	}
	return op < 0x10
}

func (e *enc) tail(op byte, inChunk bool) []byte {
	if !extensible(op) || (inChunk && !e.lay.PadInChunk) {
		return nil
	}
	if t, ok := e.lay.PadOps[op]; ok {
		return t
	}
	if e.lay.PadOps != nil && e.lay.Pad == nil {
		return nil
	}
	return e.lay.Pad
}

func appendRec(b []byte, op byte, body, tail []byte) []byte {
	b = append(b, op)
	b = binary.LittleEndian.AppendUint64(b, uint64(len(body)+len(tail)))
	b = append(b, body...)
	return append(b, tail...)
}

func (e *enc) rec(op byte, body []byte) (off, length int) {
	off = len(e.b)
	e.b = appendRec(e.b, op, body, e.tail(op, false))
	return off, len(e.b) - off
}

// EncodeFile emits a complete file.
func EncodeFile(h *Header, items []Item, lay Layout) *Encoded {
	e := &enc{lay: &lay}
	out := &Encoded{}
	if !lay.NoMagic {
		e.b = append(e.b, Magic...)
	}
	e.rec(OpHeader, BodyHeader(h))
	var schemas, channels []RawRec
	seenS, seenC := map[uint16]bool{}, map[uint16]bool{}
	st := Statistics{}
	counts := map[uint16]uint64{}
	var countOrder []uint16
	var cidx []*ChunkIndex
	var aidx []*AttachmentIndex
	var midx []*MetadataIndex
	note := func(r RawRec) {
		rr := Rec{Op: r.Op, Body: r.Body}
		ParseBody(&rr)
		switch r.Op {
		case OpSchema:
			if rr.Schema != nil && !seenS[rr.Schema.ID] {
				seenS[rr.Schema.ID] = true
				schemas = append(schemas, r)
				st.SchemaCount++
			}
		case OpChannel:
			if rr.Channel != nil && !seenC[rr.Channel.ID] {
				seenC[rr.Channel.ID] = true
				channels = append(channels, r)
				st.ChannelCount++
			}
		case OpMessage:
			if rr.Message != nil {
				t := rr.Message.LogTime
				if st.MessageCount == 0 || t < st.StartTime {
					st.StartTime = t
				}
				if st.MessageCount == 0 || t > st.EndTime {
					st.EndTime = t
				}
				st.MessageCount++
				if _, ok := counts[rr.Message.ChannelID]; !ok {
					countOrder = append(countOrder, rr.Message.ChannelID)
				}
				counts[rr.Message.ChannelID]++
			}
		}
	}
	for _, it := range items {
		switch {
		case it.Rec != nil:
			r := *it.Rec
			note(r)
			off, n := e.rec(r.Op, r.Body)
			rr := Rec{Op: r.Op, Body: r.Body}
			ParseBody(&rr)
			switch r.Op {
			case OpAttachment:
				st.AttachmentCount++
				if rr.Attachment != nil {
					a := rr.Attachment
					aidx = append(aidx, &AttachmentIndex{Offset: uint64(off), Length: uint64(n), LogTime: a.LogTime, CreateTime: a.CreateTime, DataSize: uint64(len(a.Data)), Name: a.Name, MediaType: a.MediaType})
				}
			case OpMetadata:
				st.MetadataCount++
				if rr.Metadata != nil {
					midx = append(midx, &MetadataIndex{Offset: uint64(off), Length: uint64(n), Name: rr.Metadata.Name})
				}
			}
		case it.Chunk != nil:
			st.ChunkCount++
			var inner []byte
			var lo, hi uint64
			nm := 0
			mis := map[uint16]*MessageIndex{}
			var miOrder []uint16
			for _, r := range it.Chunk.Recs {
				note(r)
				rr := Rec{Op: r.Op, Body: r.Body}
				ParseBody(&rr)
				if r.Op == OpChannel && lay.EmptyMIForChans && rr.Channel != nil {
					if _, ok := mis[rr.Channel.ID]; !ok {
						mis[rr.Channel.ID] = &MessageIndex{ChannelID: rr.Channel.ID}
						miOrder = append(miOrder, rr.Channel.ID)
					}
				}
				if r.Op == OpMessage && rr.Message != nil {
					m := rr.Message
					if nm == 0 || m.LogTime < lo {
						lo = m.LogTime
					}
					if nm == 0 || m.LogTime > hi {
						hi = m.LogTime
					}
					nm++
					if _, ok := mis[m.ChannelID]; !ok {
						mis[m.ChannelID] = &MessageIndex{ChannelID: m.ChannelID}
						miOrder = append(miOrder, m.ChannelID)
					}
					mis[m.ChannelID].Entries = append(mis[m.ChannelID].Entries, MIEntry{m.LogTime, uint64(len(inner))})
				}
				inner = appendRec(inner, r.Op, r.Body, e.tail(r.Op, true))
			}
			stored, err := Compress(it.Chunk.Compression, inner)
			if err != nil {
				panic(err)
			}
			var w wbuf
			w.u64(lo)
			w.u64(hi)
			w.u64(uint64(len(inner)))
			if lay.ChunkCRC {
				w.u32(crc32.ChecksumIEEE(inner))
			} else {
				w.u32(0)
			}
			w.str(it.Chunk.Compression)
			w.u64(uint64(len(stored)))
			w.b = append(w.b, stored...)
			off, n := e.rec(OpChunk, w.b)
			out.ChunkOffsets = append(out.ChunkOffsets, off)
			ci := &ChunkIndex{StartTime: lo, EndTime: hi, ChunkStart: uint64(off), ChunkLength: uint64(n), Compression: it.Chunk.Compression, CompressedSize: uint64(len(stored)), Uncompressed: uint64(len(inner))}
			if lay.MessageIndex {
				for _, id := range miOrder {
					moff, mn := e.rec(OpMessageIndex, BodyMessageIndex(mis[id]))
					ci.MessageIndexOffsets = append(ci.MessageIndexOffsets, CIOffset{id, uint64(moff)})
					ci.MessageIndexLength += uint64(mn)
				}
			}
			cidx = append(cidx, ci)
		}
	}
	crc := uint32(0)
	if lay.DataCRC {
		crc = crc32.ChecksumIEEE(e.b)
	}
	e.rec(OpDataEnd, BodyDataEnd(crc))
	summaryStart := len(e.b)
	order := lay.GroupOrder
	if order == nil {
		order = TSGroupOrder
	}
	var offsets []SummaryOffset
	extras := func(i int) {
		for _, r := range lay.SummaryExtras[i] {
			e.rec(r.Op, r.Body)
		}
	}
	for gi, op := range order {
		extras(gi)
		start := len(e.b)
		switch op {
		case OpSchema:
			if lay.RepeatSchemas {
				for _, r := range schemas {
					e.rec(r.Op, r.Body)
				}
			}
		case OpChannel:
			if lay.RepeatChannels {
				for _, r := range channels {
					e.rec(r.Op, r.Body)
				}
			}
		case OpStatistics:
			if lay.Statistics {
				s := st
				ord := countOrder
				if lay.StatsChannelOrder != nil {
					ord = lay.StatsChannelOrder
				}
				for _, id := range ord {
					if n, ok := counts[id]; ok {
						s.ChannelCounts = append(s.ChannelCounts, ChanCount{id, n})
					}
				}
				e.rec(OpStatistics, BodyStatistics(&s))
			}
		case OpMetadataIndex:
			if lay.MetadataIndex {
				for _, m := range midx {
					e.rec(OpMetadataIndex, BodyMetadataIndex(m))
				}
			}
		case OpAttachmentIndex:
			if lay.AttachmentIndex {
				for _, a := range aidx {
					e.rec(OpAttachmentIndex, BodyAttachmentIndex(a))
				}
			}
		case OpChunkIndex:
			if lay.ChunkIndex {
				for _, c := range cidx {
					e.rec(OpChunkIndex, BodyChunkIndex(c))
				}
			}
		}
		if len(e.b) > start {
			offsets = append(offsets, SummaryOffset{op, uint64(start), uint64(len(e.b) - start)})
		}
	}
	extras(len(order))
	hasSummary := len(e.b) != summaryStart
	summaryOffsetStart := uint64(0)
	if lay.SummaryOffsets {
		summaryOffsetStart = uint64(len(e.b))
		for i := range offsets {
			e.rec(OpSummaryOffset, BodySummaryOffset(&offsets[i]))
		}
	}
	extras(len(order) + 1)
	if len(lay.SummaryExtras[len(order)+1]) > 0 {
		hasSummary = true
	}
	ft := Footer{SummaryOffsetStart: summaryOffsetStart}
	if hasSummary {
		ft.SummaryStart = uint64(summaryStart)
	}
	if lay.SummaryOffsets && len(offsets) == 0 && len(lay.SummaryExtras[len(order)+1]) == 0 {
		// TypeScript generator: summary_offset_start is set even when no offset record follows
		ft.SummaryOffsetStart = summaryOffsetStart
	}
	if lay.SummaryCRC {
		var w wbuf
		w.u8(OpFooter)
		w.u64(20)
		w.u64(ft.SummaryStart)
		w.u64(ft.SummaryOffsetStart)
		c := crc32.Update(0, crc32.IEEETable, e.b[summaryStart:])
		ft.SummaryCRC = crc32.Update(c, crc32.IEEETable, w.b)
	}
	e.rec(OpFooter, BodyFooter(&ft))
	e.b = append(e.b, Magic...)
	out.Bytes = e.b
	return out
}
