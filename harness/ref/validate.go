package ref

import (
	"fmt"
	"hash/crc32"
)

// Problem is one deviation from the specification found in a file.
type Problem struct {
	Prop string // "C05" (grammar / pointers) or "C06" (checksums)
	Rule string // short stable name of the rule (used for signatures)
	Msg  string
}

// Tri is a three-valued expectation.
type Tri int

const (
	Any Tri = iota
	Yes
	No
)

// Expect carries what the producer's configuration promises; Any means "only check consistency".
type Expect struct {
	CRC              Tri // Yes: data, summary and chunk CRCs present and right; No: they must be 0
	ChunkIndex       Tri
	MessageIndex     Tri
	AttachmentIndex  Tri
	MetadataIndex    Tri
	Statistics       Tri
	SummaryOffsets   Tri
	RepeatedSchemas  Tri
	RepeatedChannels Tri
	AllowUnknownOps  bool
}

type val struct {
	f   *File
	out []Problem
}

func (v *val) p5(rule, format string, a ...any) {
	v.out = append(v.out, Problem{"C05", rule, fmt.Sprintf(format, a...)})
}
func (v *val) p6(rule, format string, a ...any) {
	v.out = append(v.out, Problem{"C06", rule, fmt.Sprintf(format, a...)})
}

func triCheck(v *val, t Tri, have bool, need bool, rule string) {
	if !need {
		return
	}
	if t == Yes && !have {
		v.p5(rule+"-missing", "configuration promises %s but the file has none", rule)
	}
	if t == No && have {
		v.p5(rule+"-unexpected", "configuration excludes %s but the file has some", rule)
	}
}

// Validate checks the grammar, every pointer/size/time field and every checksum of a decoded file.
func Validate(f *File, ex Expect) []Problem {
	v := &val{f: f}
	if f.Err != "" {
		v.p5("framing", "%s", f.Err)
		return v.out
	}
	recs := f.Recs
	if len(recs) == 0 || recs[0].Op != OpHeader {
		v.p5("header-first", "first record is not a header")
		return v.out
	}
	for i := range recs {
		if recs[i].Err != "" {
			v.p5("record-body", "%s at %d: %s", OpName(recs[i].Op), recs[i].Off, recs[i].Err)
		}
	}
	if len(v.out) > 0 {
		return v.out
	}
	byOff := map[int]*Rec{}
	for i := range recs {
		byOff[recs[i].Off] = &recs[i]
	}
	// --- data section
	dataEnd := -1
	for i := 1; i < len(recs); i++ {
		if recs[i].Op == OpDataEnd {
			dataEnd = i
			break
		}
	}
	if dataEnd < 0 {
		v.p5("dataend", "no DataEnd record")
		return v.out
	}
	schemas := map[uint16]bool{}
	channels := map[uint16]bool{}
	dataSchemas := map[uint16]*Schema{}   // as defined in the data section (last definition)
	dataChannels := map[uint16]*Channel{} // as defined in the data section (last definition)
	seeInner := func(r *Rec, where string) {
		switch r.Op {
		case OpSchema:
			if r.Schema.ID == 0 {
				v.p5("schema-id-zero", "schema with id 0 %s", where)
			}
			schemas[r.Schema.ID] = true
			dataSchemas[r.Schema.ID] = r.Schema
		case OpChannel:
			if r.Channel.SchemaID != 0 && !schemas[r.Channel.SchemaID] {
				v.p5("channel-before-schema", "channel %d %s refers to schema %d not seen before", r.Channel.ID, where, r.Channel.SchemaID)
			}
			channels[r.Channel.ID] = true
			dataChannels[r.Channel.ID] = r.Channel
		case OpMessage:
			if !channels[r.Message.ChannelID] {
				v.p5("message-before-channel", "message %s on channel %d not seen before", where, r.Message.ChannelID)
			}
		}
	}
	nChunks, nAtt, nMeta := 0, 0, 0
	type chunkInfo struct {
		rec     *Rec
		mis     []*Rec // message index records following it
		miBytes int
	}
	var chunks []*chunkInfo
	var lastChunk *chunkInfo
	anyMI := false
	for i := 1; i < dataEnd; i++ {
		r := &recs[i]
		if r.Op != OpMessageIndex {
			lastChunk = nil
		}
		switch r.Op {
		case OpSchema, OpChannel, OpMessage:
			seeInner(r, fmt.Sprintf("at %d", r.Off))
		case OpChunk:
			nChunks++
			ci := &chunkInfo{rec: r}
			chunks = append(chunks, ci)
			lastChunk = ci
			ch := r.Chunk
			if ch.DecompressErr != "" {
				v.p5("chunk-decompress", "chunk at %d: %s", r.Off, ch.DecompressErr)
				continue
			}
			if r.InnerErr != "" {
				v.p5("chunk-framing", "chunk at %d: %s", r.Off, r.InnerErr)
			}
			if uint64(len(ch.Uncompressed)) != ch.UncompressedSize {
				v.p5("chunk-uncompressed-size", "chunk at %d states uncompressed size %d, actual %d", r.Off, ch.UncompressedSize, len(ch.Uncompressed))
			}
			var lo, hi uint64
			n := 0
			for k := range r.Inner {
				in := &r.Inner[k]
				if in.Err != "" {
					v.p5("record-body", "%s at chunk %d+%d: %s", OpName(in.Op), r.Off, in.Off, in.Err)
					continue
				}
				switch in.Op {
				case OpSchema, OpChannel, OpMessage:
					seeInner(in, fmt.Sprintf("in chunk %d+%d", r.Off, in.Off))
				default:
					if !(ex.AllowUnknownOps && in.Op >= 0x10) {
						v.p5("chunk-content", "chunk at %d contains a %s record", r.Off, OpName(in.Op))
					}
				}
				if in.Op == OpMessage {
					t := in.Message.LogTime
					if n == 0 || t < lo {
						lo = t
					}
					if n == 0 || t > hi {
						hi = t
					}
					n++
				}
			}
			if ch.StartTime != lo || ch.EndTime != hi {
				v.p5("chunk-times", "chunk at %d states times [%d,%d], true [%d,%d] over %d messages", r.Off, ch.StartTime, ch.EndTime, lo, hi, n)
			}
			if ch.UncompressedCRC != 0 || ex.CRC == Yes {
				if c := crc32.ChecksumIEEE(ch.Uncompressed); c != ch.UncompressedCRC {
					v.p6("chunk-crc", "chunk at %d: stored CRC %08x, CRC of uncompressed records %08x", r.Off, ch.UncompressedCRC, c)
				}
			}
			if ex.CRC == No && ch.UncompressedCRC != 0 {
				v.p6("chunk-crc-nonzero", "chunk at %d: CRC %08x although checksums are disabled", r.Off, ch.UncompressedCRC)
			}
		case OpMessageIndex:
			anyMI = true
			if lastChunk == nil {
				v.p5("message-index-placement", "message index at %d does not immediately follow a chunk", r.Off)
				continue
			}
			lastChunk.mis = append(lastChunk.mis, r)
			lastChunk.miBytes += 9 + int(r.Len)
		case OpAttachment:
			nAtt++
			a := r.Attachment
			if c := crc32.ChecksumIEEE(r.Body[:len(r.Body)-4-len(r.Tail)]); c != a.CRC {
				// attachment CRCs are written regardless of IncludeCRC; 0 means "not available" in the spec
				if a.CRC != 0 || true {
					v.p6("attachment-crc", "attachment at %d: stored CRC %08x, CRC of preceding fields %08x", r.Off, a.CRC, c)
				}
			}
		case OpMetadata:
			nMeta++
		case OpHeader, OpFooter, OpChunkIndex, OpAttachmentIndex, OpStatistics, OpMetadataIndex, OpSummaryOffset, OpDataEnd:
			v.p5("data-section-content", "%s record at %d inside the data section", OpName(r.Op), r.Off)
		default:
			if r.Op == 0 || !ex.AllowUnknownOps {
				v.p5("data-section-content", "unknown opcode 0x%02x at %d", r.Op, r.Off)
			}
		}
	}
	// message indexes <-> chunk content
	for _, ci := range chunks {
		r := ci.rec
		if r.Chunk.Uncompressed == nil {
			continue
		}
		msgAt := map[uint64]*Rec{}
		perChan := map[uint16]int{}
		for k := range r.Inner {
			if r.Inner[k].Op == OpMessage && r.Inner[k].Err == "" {
				msgAt[uint64(r.Inner[k].Off)] = &r.Inner[k]
				perChan[r.Inner[k].Message.ChannelID]++
			}
		}
		if len(ci.mis) == 0 {
			continue
		}
		seenChan := map[uint16]bool{}
		indexed := map[uint64]int{}
		for _, mi := range ci.mis {
			m := mi.MessageIndex
			if seenChan[m.ChannelID] {
				v.p5("message-index-duplicate", "two message indexes for channel %d after chunk at %d", m.ChannelID, r.Off)
			}
			seenChan[m.ChannelID] = true
			for _, e := range m.Entries {
				t, ok := msgAt[e.Offset]
				switch {
				case !ok:
					v.p5("message-index-entry", "message index (chunk %d, channel %d): offset %d is not the start of a message record", r.Off, m.ChannelID, e.Offset)
				case t.Message.ChannelID != m.ChannelID:
					v.p5("message-index-entry", "message index (chunk %d, channel %d): offset %d holds a message of channel %d", r.Off, m.ChannelID, e.Offset, t.Message.ChannelID)
				case t.Message.LogTime != e.Time:
					v.p5("message-index-entry", "message index (chunk %d, channel %d): offset %d has log time %d, entry says %d", r.Off, m.ChannelID, e.Offset, t.Message.LogTime, e.Time)
				}
				indexed[e.Offset]++
			}
		}
		for off, m := range msgAt {
			if indexed[off] != 1 {
				v.p5("message-index-coverage", "chunk %d: message at %d (channel %d) indexed %d times", r.Off, off, m.Message.ChannelID, indexed[off])
			}
		}
		for c := range perChan {
			if !seenChan[c] {
				v.p5("message-index-coverage", "chunk %d: no message index for channel %d", r.Off, c)
			}
		}
	}
	nMsgChunks := 0
	for _, ci := range chunks {
		for k := range ci.rec.Inner {
			if ci.rec.Inner[k].Op == OpMessage {
				nMsgChunks++
				break
			}
		}
	}
	triCheck(v, ex.MessageIndex, anyMI, nMsgChunks > 0, "message-index")
	if ex.MessageIndex == Yes {
		for _, ci := range chunks {
			hasMsg := false
			for k := range ci.rec.Inner {
				hasMsg = hasMsg || ci.rec.Inner[k].Op == OpMessage
			}
			if hasMsg && len(ci.mis) == 0 {
				v.p5("message-index-coverage", "chunk %d has messages but no message index follows", ci.rec.Off)
			}
		}
	}
	// data end CRC
	de := &recs[dataEnd]
	dcrc := crc32.ChecksumIEEE(f.Bytes[:de.Off])
	if de.DataEnd.CRC != 0 || ex.CRC == Yes {
		if de.DataEnd.CRC != dcrc {
			v.p6("data-crc", "DataEnd CRC %08x, CRC of bytes [0,%d) is %08x", de.DataEnd.CRC, de.Off, dcrc)
		}
	}
	if ex.CRC == No && de.DataEnd.CRC != 0 {
		v.p6("data-crc-nonzero", "DataEnd CRC %08x although checksums are disabled", de.DataEnd.CRC)
	}
	// --- summary section
	footer := &recs[len(recs)-1]
	sum := recs[dataEnd+1 : len(recs)-1]
	firstOffsetRec := -1
	for i := range sum {
		if sum[i].Op == OpSummaryOffset {
			firstOffsetRec = i
			break
		}
	}
	body := sum
	var offs []Rec
	if firstOffsetRec >= 0 {
		body = sum[:firstOffsetRec]
		offs = sum[firstOffsetRec:]
	}
	type group struct {
		op         byte
		start, end int
	}
	var groups []group
	seenOp := map[byte]bool{}
	nStats := 0
	var sumSchemas, sumChannels []*Rec
	var chunkIdx, attIdx, metaIdx []*Rec
	for i := range body {
		r := &body[i]
		switch r.Op {
		case OpSchema:
			sumSchemas = append(sumSchemas, r)
		case OpChannel:
			sumChannels = append(sumChannels, r)
		case OpChunkIndex:
			chunkIdx = append(chunkIdx, r)
		case OpAttachmentIndex:
			attIdx = append(attIdx, r)
		case OpMetadataIndex:
			metaIdx = append(metaIdx, r)
		case OpStatistics:
			nStats++
		default:
			if r.Op < 0x10 || !ex.AllowUnknownOps {
				v.p5("summary-content", "%s record at %d inside the summary section", OpName(r.Op), r.Off)
			}
		}
		if len(groups) > 0 && groups[len(groups)-1].op == r.Op {
			groups[len(groups)-1].end = r.End()
			continue
		}
		if seenOp[r.Op] {
			v.p5("summary-grouping", "summary records of type %s are not contiguous (again at %d)", OpName(r.Op), r.Off)
		}
		seenOp[r.Op] = true
		groups = append(groups, group{r.Op, r.Off, r.End()})
	}
	for i := range offs {
		if offs[i].Op != OpSummaryOffset && !(ex.AllowUnknownOps && offs[i].Op >= 0x10) {
			v.p5("summary-offset-section", "%s record at %d after the first summary offset", OpName(offs[i].Op), offs[i].Off)
		}
	}
	if nStats > 1 {
		v.p5("statistics-count", "%d statistics records", nStats)
	}
	// footer
	ft := footer.Footer
	wantStart := uint64(0)
	if len(body) > 0 {
		wantStart = uint64(body[0].Off)
	}
	if ft.SummaryStart != wantStart {
		v.p5("footer-summary-start", "footer summary_start %d, summary section starts at %d (0 = empty)", ft.SummaryStart, wantStart)
	}
	if len(offs) > 0 {
		if ft.SummaryOffsetStart != uint64(offs[0].Off) {
			v.p5("footer-summary-offset-start", "footer summary_offset_start %d, first summary offset record at %d", ft.SummaryOffsetStart, offs[0].Off)
		}
	} else if ft.SummaryOffsetStart != 0 && ft.SummaryOffsetStart != uint64(footer.Off) {
		// leniency: a non-zero value that designates an empty summary offset section is accepted
		v.p5("footer-summary-offset-start", "footer summary_offset_start %d but there is no summary offset record (footer at %d)", ft.SummaryOffsetStart, footer.Off)
	}
	// summary offsets <-> groups
	if len(offs) > 0 || ex.SummaryOffsets == Yes {
		used := map[int]bool{}
		for i := range offs {
			so := offs[i].SummaryOffset
			if so == nil {
				continue
			}
			found := false
			for gi, g := range groups {
				if g.op == so.GroupOpcode {
					found = true
					used[gi] = true
					if uint64(g.start) != so.Start || uint64(g.end-g.start) != so.Len {
						v.p5("summary-offset-exact", "summary offset for %s says [%d,+%d), group is [%d,+%d)", OpName(so.GroupOpcode), so.Start, so.Len, g.start, g.end-g.start)
					}
				}
			}
			if !found {
				v.p5("summary-offset-exact", "summary offset for %s designates no group", OpName(so.GroupOpcode))
			}
		}
		for gi, g := range groups {
			if !used[gi] && g.op < 0x10 {
				v.p5("summary-offset-coverage", "no summary offset for the %s group at %d", OpName(g.op), g.start)
			}
		}
	}
	triCheck(v, ex.SummaryOffsets, len(offs) > 0, len(groups) > 0, "summary-offsets")
	// summary CRC
	sumFrom := de.End()
	scrc := crc32.ChecksumIEEE(f.Bytes[sumFrom : footer.Off+9+16])
	if ft.SummaryCRC != 0 || ex.CRC == Yes {
		if ft.SummaryCRC != scrc {
			v.p6("summary-crc", "footer summary CRC %08x, CRC of bytes [%d,%d) is %08x", ft.SummaryCRC, sumFrom, footer.Off+25, scrc)
		}
	}
	if ex.CRC == No && ft.SummaryCRC != 0 {
		v.p6("summary-crc-nonzero", "summary CRC %08x although checksums are disabled", ft.SummaryCRC)
	}
	// chunk indexes
	triCheck(v, ex.ChunkIndex, len(chunkIdx) > 0, nChunks > 0, "chunk-index")
	if len(chunkIdx) > 0 {
		designated := map[int]int{}
		for _, cr := range chunkIdx {
			ci := cr.ChunkIndex
			t, ok := byOff[int(ci.ChunkStart)]
			if !ok || t.Op != OpChunk || int(ci.ChunkStart) > de.Off {
				v.p5("chunk-index-offset", "chunk index at %d: chunk_start_offset %d is not the start of a chunk record", cr.Off, ci.ChunkStart)
				continue
			}
			designated[t.Off]++
			ch := t.Chunk
			if ci.ChunkLength != uint64(9+t.Len) {
				v.p5("chunk-index-length", "chunk index at %d: chunk_length %d, record occupies %d", cr.Off, ci.ChunkLength, 9+t.Len)
			}
			if ci.Compression != ch.Compression || ci.CompressedSize != uint64(len(ch.Records)) || ci.Uncompressed != ch.UncompressedSize {
				v.p5("chunk-index-sizes", "chunk index at %d: (%q,%d,%d) vs chunk (%q,%d,%d)", cr.Off, ci.Compression, ci.CompressedSize, ci.Uncompressed, ch.Compression, len(ch.Records), ch.UncompressedSize)
			}
			if ci.StartTime != ch.StartTime || ci.EndTime != ch.EndTime {
				v.p5("chunk-index-times", "chunk index at %d: times [%d,%d], chunk header [%d,%d]", cr.Off, ci.StartTime, ci.EndTime, ch.StartTime, ch.EndTime)
			}
			var info *chunkInfo
			for _, c := range chunks {
				if c.rec == t {
					info = c
				}
			}
			if ci.MessageIndexLength != uint64(info.miBytes) {
				v.p5("chunk-index-mi-length", "chunk index at %d: message_index_length %d, message indexes after the chunk occupy %d", cr.Off, ci.MessageIndexLength, info.miBytes)
			}
			seen := map[uint16]bool{}
			for _, o := range ci.MessageIndexOffsets {
				if seen[o.ChannelID] {
					v.p5("chunk-index-mi-offsets", "chunk index at %d lists channel %d twice", cr.Off, o.ChannelID)
				}
				seen[o.ChannelID] = true
				m, ok := byOff[int(o.Offset)]
				if !ok || m.Op != OpMessageIndex || m.MessageIndex.ChannelID != o.ChannelID {
					v.p5("chunk-index-mi-offsets", "chunk index at %d: offset %d for channel %d is not that channel's message index", cr.Off, o.Offset, o.ChannelID)
					continue
				}
				if m.Off < t.End() || m.End() > t.End()+info.miBytes {
					v.p5("chunk-index-mi-offsets", "chunk index at %d: message index at %d lies outside the run after its chunk", cr.Off, m.Off)
				}
			}
			for _, m := range info.mis {
				if !seen[m.MessageIndex.ChannelID] {
					v.p5("chunk-index-mi-offsets", "chunk index at %d: message index for channel %d at %d is not listed", cr.Off, m.MessageIndex.ChannelID, m.Off)
				}
			}
		}
		for _, c := range chunks {
			if designated[c.rec.Off] != 1 {
				v.p5("chunk-index-coverage", "chunk at %d is designated by %d chunk indexes", c.rec.Off, designated[c.rec.Off])
			}
		}
	}
	// attachment indexes
	triCheck(v, ex.AttachmentIndex, len(attIdx) > 0, nAtt > 0, "attachment-index")
	if len(attIdx) > 0 {
		n := 0
		for _, ar := range attIdx {
			ai := ar.AttachmentIndex
			t, ok := byOff[int(ai.Offset)]
			if !ok || t.Op != OpAttachment {
				v.p5("attachment-index-offset", "attachment index at %d: offset %d is not an attachment record", ar.Off, ai.Offset)
				continue
			}
			n++
			a := t.Attachment
			if ai.Length != uint64(9+t.Len) || ai.LogTime != a.LogTime || ai.CreateTime != a.CreateTime || ai.DataSize != uint64(len(a.Data)) || ai.Name != a.Name || ai.MediaType != a.MediaType {
				v.p5("attachment-index-fields", "attachment index at %d %+v does not match attachment at %d (len %d, log %d, create %d, size %d, %q, %q)", ar.Off, *ai, t.Off, 9+t.Len, a.LogTime, a.CreateTime, len(a.Data), a.Name, a.MediaType)
			}
		}
		if n != nAtt {
			v.p5("attachment-index-coverage", "%d attachments, %d valid attachment indexes", nAtt, n)
		}
	}
	triCheck(v, ex.MetadataIndex, len(metaIdx) > 0, nMeta > 0, "metadata-index")
	if len(metaIdx) > 0 {
		n := 0
		for _, mr := range metaIdx {
			mi := mr.MetadataIndex
			t, ok := byOff[int(mi.Offset)]
			if !ok || t.Op != OpMetadata {
				v.p5("metadata-index-offset", "metadata index at %d: offset %d is not a metadata record", mr.Off, mi.Offset)
				continue
			}
			n++
			if mi.Length != uint64(9+t.Len) || mi.Name != t.Metadata.Name {
				v.p5("metadata-index-fields", "metadata index at %d (len %d, %q) does not match metadata at %d (len %d, %q)", mr.Off, mi.Length, mi.Name, t.Off, 9+t.Len, t.Metadata.Name)
			}
		}
		if n != nMeta {
			v.p5("metadata-index-coverage", "%d metadata records, %d valid metadata indexes", nMeta, n)
		}
	}
	// the schema and channel records repeated in the summary are copies: field for field what the data section defines
	for _, r := range sumSchemas {
		if r.Schema == nil {
			continue
		}
		if d, ok := dataSchemas[r.Schema.ID]; ok && !r.Schema.Equal(d) {
			v.p5("summary-copy-differs", "schema %d repeated in the summary at %d differs from its definition in the data section", r.Schema.ID, r.Off)
		}
	}
	for _, r := range sumChannels {
		if r.Channel == nil {
			continue
		}
		if d, ok := dataChannels[r.Channel.ID]; ok {
			c := r.Channel
			same := c.SchemaID == d.SchemaID && c.Topic == d.Topic && c.MessageEncoding == d.MessageEncoding && len(KVMap(c.Metadata)) == len(KVMap(d.Metadata))
			for k, val := range KVMap(c.Metadata) {
				if dv, ok := KVMap(d.Metadata)[k]; !ok || dv != val {
					same = false
				}
			}
			if !same {
				v.p5("summary-copy-differs", "channel %d repeated in the summary at %d differs from its definition in the data section", c.ID, r.Off)
			}
		}
	}
	triCheck(v, ex.Statistics, nStats > 0, true, "statistics")
	triCheck(v, ex.RepeatedSchemas, len(sumSchemas) > 0, len(schemas) > 0, "repeated-schemas")
	triCheck(v, ex.RepeatedChannels, len(sumChannels) > 0, len(channels) > 0, "repeated-channels")
	return v.out
}
