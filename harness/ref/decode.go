package ref

import (
	"bytes"
	"encoding/binary"
	"errors"
	"fmt"
	"io"

	"github.com/klauspost/compress/zstd"
	"github.com/pierrec/lz4/v4"
)

var le = binary.LittleEndian

// Codec is a caller-supplied chunk compression (used for the custom-compressor configurations).
type Codec struct {
	Decompress func([]byte) ([]byte, error)
	Compress   func([]byte) ([]byte, error)
}

// Codecs holds additional compression formats by name. "xor1" is the harness' toy codec.
var Codecs = map[string]Codec{
	"xor1": {
		Decompress: func(b []byte) ([]byte, error) { return xor(b), nil },
		Compress:   func(b []byte) ([]byte, error) { return xor(b), nil },
	},
}

func xor(b []byte) []byte {
	o := make([]byte, len(b))
	for i, x := range b {
		o[i] = x ^ 0x5a
	}
	return o
}

var zdec, _ = zstd.NewReader(nil, zstd.WithDecoderConcurrency(1))

func Decompress(compression string, b []byte, over map[string]Codec) ([]byte, error) {
	if c, ok := over[compression]; ok {
		return c.Decompress(b)
	}
	if c, ok := Codecs[compression]; ok {
		return c.Decompress(b)
	}
	switch compression {
	case "":
		return b, nil
	case "zstd":
		return zdec.DecodeAll(b, nil)
	case "lz4":
		return io.ReadAll(lz4.NewReader(bytes.NewReader(b)))
	}
	return nil, fmt.Errorf("unknown compression %q", compression)
}

type cursor struct {
	b   []byte
	off int
	err error
}

func (c *cursor) need(n int) bool {
	if c.err != nil {
		return false
	}
	if n < 0 || len(c.b)-c.off < n {
		c.err = errors.New("short record")
		return false
	}
	return true
}
func (c *cursor) u8() byte {
	if !c.need(1) {
		return 0
	}
	v := c.b[c.off]
	c.off++
	return v
}
func (c *cursor) u16() uint16 {
	if !c.need(2) {
		return 0
	}
	v := le.Uint16(c.b[c.off:])
	c.off += 2
	return v
}
func (c *cursor) u32() uint32 {
	if !c.need(4) {
		return 0
	}
	v := le.Uint32(c.b[c.off:])
	c.off += 4
	return v
}
func (c *cursor) u64() uint64 {
	if !c.need(8) {
		return 0
	}
	v := le.Uint64(c.b[c.off:])
	c.off += 8
	return v
}
func (c *cursor) bytesN(n uint64) []byte {
	if n > uint64(len(c.b)) || !c.need(int(n)) {
		if c.err == nil {
			c.err = errors.New("short record")
		}
		return nil
	}
	v := c.b[c.off : c.off+int(n)]
	c.off += int(n)
	return v
}
func (c *cursor) str() string   { return string(c.bytesN(uint64(c.u32()))) }
func (c *cursor) blob() []byte  { return c.bytesN(uint64(c.u32())) }
func (c *cursor) rest() []byte  { v := c.b[c.off:]; c.off = len(c.b); return v }
func (c *cursor) strmap() []KV {
	n := c.u32()
	body := c.bytesN(uint64(n))
	if c.err != nil {
		return nil
	}
	sub := &cursor{b: body}
	out := []KV{}
	for sub.off < len(sub.b) && sub.err == nil {
		k := sub.str()
		v := sub.str()
		if sub.err == nil {
			out = append(out, KV{k, v})
		}
	}
	if sub.err != nil {
		c.err = fmt.Errorf("map: %w", sub.err)
	}
	return out
}

// ParseBody decodes the body of one record according to its opcode.
func ParseBody(r *Rec) {
	c := &cursor{b: r.Body}
	switch r.Op {
	case OpHeader:
		r.Header = &Header{Profile: c.str(), Library: c.str()}
	case OpFooter:
		r.Footer = &Footer{c.u64(), c.u64(), c.u32()}
	case OpSchema:
		r.Schema = &Schema{ID: c.u16(), Name: c.str(), Encoding: c.str(), Data: c.blob()}
	case OpChannel:
		r.Channel = &Channel{ID: c.u16(), SchemaID: c.u16(), Topic: c.str(), MessageEncoding: c.str(), Metadata: c.strmap()}
	case OpMessage:
		r.Message = &Message{ChannelID: c.u16(), Sequence: c.u32(), LogTime: c.u64(), PublishTime: c.u64()}
		r.Message.Data = c.rest()
	case OpChunk:
		ch := &Chunk{StartTime: c.u64(), EndTime: c.u64(), UncompressedSize: c.u64(), UncompressedCRC: c.u32(), Compression: c.str()}
		n := c.u64()
		ch.RecordsOff = r.Off + 9 + c.off
		ch.Records = c.bytesN(n)
		r.Chunk = ch
	case OpMessageIndex:
		mi := &MessageIndex{ChannelID: c.u16()}
		n := c.u32()
		body := c.bytesN(uint64(n))
		if c.err == nil {
			if len(body)%16 != 0 {
				c.err = errors.New("message index entries not a multiple of 16 bytes")
			}
			for i := 0; i+16 <= len(body); i += 16 {
				mi.Entries = append(mi.Entries, MIEntry{le.Uint64(body[i:]), le.Uint64(body[i+8:])})
			}
		}
		r.MessageIndex = mi
	case OpChunkIndex:
		ci := &ChunkIndex{StartTime: c.u64(), EndTime: c.u64(), ChunkStart: c.u64(), ChunkLength: c.u64()}
		n := c.u32()
		body := c.bytesN(uint64(n))
		if c.err == nil {
			if len(body)%10 != 0 {
				c.err = errors.New("message index offsets not a multiple of 10 bytes")
			}
			for i := 0; i+10 <= len(body); i += 10 {
				ci.MessageIndexOffsets = append(ci.MessageIndexOffsets, CIOffset{le.Uint16(body[i:]), le.Uint64(body[i+2:])})
			}
		}
		ci.MessageIndexLength = c.u64()
		ci.Compression = c.str()
		ci.CompressedSize = c.u64()
		ci.Uncompressed = c.u64()
		r.ChunkIndex = ci
	case OpAttachment:
		a := &Attachment{LogTime: c.u64(), CreateTime: c.u64(), Name: c.str(), MediaType: c.str()}
		a.Data = c.bytesN(c.u64())
		a.CRC = c.u32()
		r.Attachment = a
	case OpAttachmentIndex:
		r.AttachmentIndex = &AttachmentIndex{Offset: c.u64(), Length: c.u64(), LogTime: c.u64(), CreateTime: c.u64(), DataSize: c.u64(), Name: c.str(), MediaType: c.str()}
	case OpStatistics:
		s := &Statistics{MessageCount: c.u64(), SchemaCount: c.u16(), ChannelCount: c.u32(), AttachmentCount: c.u32(), MetadataCount: c.u32(), ChunkCount: c.u32(), StartTime: c.u64(), EndTime: c.u64()}
		n := c.u32()
		body := c.bytesN(uint64(n))
		if c.err == nil {
			if len(body)%10 != 0 {
				c.err = errors.New("channel message counts not a multiple of 10 bytes")
			}
			for i := 0; i+10 <= len(body); i += 10 {
				s.ChannelCounts = append(s.ChannelCounts, ChanCount{le.Uint16(body[i:]), le.Uint64(body[i+2:])})
			}
		}
		r.Statistics = s
	case OpMetadata:
		r.Metadata = &Metadata{Name: c.str(), Metadata: c.strmap()}
	case OpMetadataIndex:
		r.MetadataIndex = &MetadataIndex{Offset: c.u64(), Length: c.u64(), Name: c.str()}
	case OpSummaryOffset:
		r.SummaryOffset = &SummaryOffset{GroupOpcode: c.u8(), Start: c.u64(), Len: c.u64()}
	case OpDataEnd:
		r.DataEnd = &DataEnd{CRC: c.u32()}
	default:
		c.off = len(c.b)
	}
	if c.err != nil {
		r.Err = c.err.Error()
		return
	}
	r.Tail = c.b[c.off:]
}

// frame splits b (starting at off) into records. base is added to the offsets stored.
func frame(b []byte, base int) ([]Rec, int, string) {
	var out []Rec
	off := 0
	for off < len(b) {
		if len(b)-off < 9 {
			return out, off, fmt.Sprintf("truncated record header at %d", base+off)
		}
		n := le.Uint64(b[off+1:])
		if n > uint64(len(b)-off-9) {
			return out, off, fmt.Sprintf("record 0x%02x at %d declares %d bytes, %d available", b[off], base+off, n, len(b)-off-9)
		}
		r := Rec{Op: b[off], Off: base + off, Len: n, Body: b[off+9 : off+9+int(n)]}
		ParseBody(&r)
		out = append(out, r)
		off += 9 + int(n)
	}
	return out, off, ""
}

// Decode decodes a whole file. hasMagic says whether the file starts with the magic. codecs
// optionally overrides compression names (a caller-supplied compressor registered under a built-in name).
func Decode(b []byte, hasMagic bool, codecs ...map[string]Codec) *File {
	f := &File{Bytes: b, HasMagic: hasMagic}
	var over map[string]Codec
	if len(codecs) > 0 {
		over = codecs[0]
	}
	body := b
	if hasMagic {
		if len(b) < 8 || !bytes.Equal(b[:8], Magic) {
			f.Err = "bad leading magic"
			return f
		}
		f.Base = 8
		body = b[8:]
	}
	// records run until the footer; the trailing magic follows it.
	off := 0
	for off < len(body) {
		if len(body)-off < 9 {
			f.Err = fmt.Sprintf("truncated record header at %d", f.Base+off)
			return f
		}
		n := le.Uint64(body[off+1:])
		if n > uint64(len(body)-off-9) {
			f.Err = fmt.Sprintf("record 0x%02x at %d declares %d bytes, %d available", body[off], f.Base+off, n, len(body)-off-9)
			return f
		}
		r := Rec{Op: body[off], Off: f.Base + off, Len: n, Body: body[off+9 : off+9+int(n)]}
		ParseBody(&r)
		if r.Op == OpChunk && r.Err == "" {
			ch := r.Chunk
			u, err := Decompress(ch.Compression, ch.Records, over)
			if err != nil {
				ch.DecompressErr = err.Error()
			} else {
				ch.Uncompressed = u
				inner, _, ferr := frame(u, 0)
				r.Inner = inner
				r.InnerErr = ferr
			}
		}
		f.Recs = append(f.Recs, r)
		off += 9 + int(n)
		if r.Op == OpFooter {
			break
		}
	}
	rest := body[off:]
	if len(f.Recs) == 0 || f.Recs[len(f.Recs)-1].Op != OpFooter {
		f.Err = "no footer"
		return f
	}
	if bytes.Equal(rest, Magic) {
		f.TrailMagic = true
	} else {
		f.Err = fmt.Sprintf("bytes after footer are not the magic: % x", rest)
	}
	return f
}

// Flat returns the de-chunked record stream of the data section (records up to and including
// DataEnd, chunks replaced by their inner records, message indexes dropped).
func (f *File) Flat() []Rec {
	var out []Rec
	for _, r := range f.Recs {
		switch r.Op {
		case OpChunk:
			out = append(out, r.Inner...)
		case OpMessageIndex:
		default:
			out = append(out, r)
		}
		if r.Op == OpDataEnd {
			break
		}
	}
	return out
}
