// Package ref is an MCAP codec written from the specification (website/docs/spec/index.md). It
// imports nothing from github.com/foxglove/mcap/go/mcap: it is the independent oracle the checks
// compare the library against. It uses the third-party zstd and lz4 modules only to (de)compress
// chunk payloads.
package ref

import (
	"bytes"
	"fmt"
	"sort"
)

var Magic = []byte{0x89, 'M', 'C', 'A', 'P', 0x30, '\r', '\n'}

const (
	OpHeader          = 0x01
	OpFooter          = 0x02
	OpSchema          = 0x03
	OpChannel         = 0x04
	OpMessage         = 0x05
	OpChunk           = 0x06
	OpMessageIndex    = 0x07
	OpChunkIndex      = 0x08
	OpAttachment      = 0x09
	OpAttachmentIndex = 0x0A
	OpStatistics      = 0x0B
	OpMetadata        = 0x0C
	OpMetadataIndex   = 0x0D
	OpSummaryOffset   = 0x0E
	OpDataEnd         = 0x0F
)

func OpName(op byte) string {
	names := []string{"reserved", "Header", "Footer", "Schema", "Channel", "Message", "Chunk", "MessageIndex",
		"ChunkIndex", "Attachment", "AttachmentIndex", "Statistics", "Metadata", "MetadataIndex", "SummaryOffset", "DataEnd"}
	if int(op) < len(names) {
		return names[op]
	}
	return fmt.Sprintf("Unknown(0x%02x)", op)
}

// KV is one entry of a string map as it appears in the file (order preserved).
type KV struct{ K, V string }

type Header struct{ Profile, Library string }
type Footer struct {
	SummaryStart, SummaryOffsetStart uint64
	SummaryCRC                       uint32
}
type Schema struct {
	ID             uint16
	Name, Encoding string
	Data           []byte
}
type Channel struct {
	ID, SchemaID           uint16
	Topic, MessageEncoding string
	Metadata               []KV
}
type Message struct {
	ChannelID            uint16
	Sequence             uint32
	LogTime, PublishTime uint64
	Data                 []byte
}
type Chunk struct {
	StartTime, EndTime uint64
	UncompressedSize   uint64
	UncompressedCRC    uint32
	Compression        string
	Records            []byte // stored (compressed) bytes
	RecordsOff         int    // absolute file offset of the stored bytes
	Uncompressed       []byte // nil if decompression failed
	DecompressErr      string
}
type MIEntry struct{ Time, Offset uint64 }
type MessageIndex struct {
	ChannelID uint16
	Entries   []MIEntry
}
type CIOffset struct {
	ChannelID uint16
	Offset    uint64
}
type ChunkIndex struct {
	StartTime, EndTime            uint64
	ChunkStart, ChunkLength       uint64
	MessageIndexOffsets           []CIOffset
	MessageIndexLength            uint64
	Compression                   string
	CompressedSize, Uncompressed  uint64
}
type Attachment struct {
	LogTime, CreateTime uint64
	Name, MediaType     string
	Data                []byte
	CRC                 uint32
}
type AttachmentIndex struct {
	Offset, Length, LogTime, CreateTime, DataSize uint64
	Name, MediaType                               string
}
type ChanCount struct {
	ChannelID uint16
	Count     uint64
}
type Statistics struct {
	MessageCount                                             uint64
	SchemaCount                                              uint16
	ChannelCount, AttachmentCount, MetadataCount, ChunkCount uint32
	StartTime, EndTime                                       uint64
	ChannelCounts                                            []ChanCount
}
type Metadata struct {
	Name     string
	Metadata []KV
}
type MetadataIndex struct {
	Offset, Length uint64
	Name           string
}
type SummaryOffset struct {
	GroupOpcode byte
	Start, Len  uint64
}
type DataEnd struct{ CRC uint32 }

// Rec is one decoded record.
type Rec struct {
	Op   byte
	Off  int // offset of the opcode byte (absolute in the file; in-chunk for inner records)
	Len  uint64
	Body []byte
	Tail []byte // bytes after the last declared field (record extensions)
	Err  string // non-empty when the body does not decode as its opcode demands

	Header          *Header
	Footer          *Footer
	Schema          *Schema
	Channel         *Channel
	Message         *Message
	Chunk           *Chunk
	MessageIndex    *MessageIndex
	ChunkIndex      *ChunkIndex
	Attachment      *Attachment
	AttachmentIndex *AttachmentIndex
	Statistics      *Statistics
	Metadata        *Metadata
	MetadataIndex   *MetadataIndex
	SummaryOffset   *SummaryOffset
	DataEnd         *DataEnd
	Inner           []Rec // de-chunked records of a chunk
	InnerErr        string
}

// End is the offset just past the record.
func (r *Rec) End() int { return r.Off + 9 + int(r.Len) }

// File is a decoded file.
type File struct {
	Bytes      []byte
	Base       int // offset of the first record (8 with leading magic, 0 without)
	HasMagic   bool
	Recs       []Rec
	Err        string // framing error, if any (records before it are still listed)
	TrailMagic bool
}

func KVMap(kv []KV) map[string]string {
	m := map[string]string{}
	for _, e := range kv {
		m[e.K] = e.V
	}
	return m
}

func MapKV(m map[string]string) []KV {
	out := make([]KV, 0, len(m))
	for k, v := range m {
		out = append(out, KV{k, v})
	}
	sort.Slice(out, func(i, j int) bool { return out[i].K < out[j].K })
	return out
}

func (s *Schema) Equal(o *Schema) bool {
	return s.ID == o.ID && s.Name == o.Name && s.Encoding == o.Encoding && bytes.Equal(s.Data, o.Data)
}
