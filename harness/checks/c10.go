package checks

import (
	"sort"
	"bytes"
	"encoding/binary"
	"errors"
	"fmt"
	"io"
	"math"
	"os"
	"strings"
	"time"

	mcap "github.com/foxglove/mcap/go/mcap"

	"verif/harness/chk"
	"verif/harness/gow"
	"verif/harness/iso"
	"verif/harness/model"
	"verif/harness/ref"
)

// ---------------------------------------------------------------- seeds

type c10Seed struct {
	name  string
	bytes []byte
	dec   *ref.File
}

func c10Seeds(thorough bool) []*c10Seed {
	w := model.Fixed(model.Headers[1], model.Sch(model.S1), model.Chn(model.C1), model.Chn(model.C0), model.Msg(1, 5, 40, 0), model.Msg(0, 6, 30, 0),
		model.Att(model.A1), model.Msg(1, 7, 40, 0), model.Met(model.D1), model.Msg(0, 9, 3, 0))
	var out []*c10Seed
	add := func(name string, b []byte) {
		out = append(out, &c10Seed{name, b, ref.Decode(b, true)})
	}
	for _, comp := range []string{"", "zstd", "lz4"} {
		cfg := gow.Config{CRC: false, Chunked: true, ChunkSize: 100, Compression: comp}
		add("go-writer/"+map[string]string{"": "none", "zstd": "zstd", "lz4": "lz4"}[comp], gow.Write(w, cfg, nil, nil).Bytes)
	}
	if thorough {
		add("go-writer/unchunked-crc", gow.Write(w, gow.Config{CRC: true}, nil, nil).Bytes)
		add("go-writer/none-crc", gow.Write(w, gow.Config{CRC: true, Chunked: true, ChunkSize: 100}, nil, nil).Bytes)
		// reference-encoder layouts: padded records, unknown records, TS group order
		l := logicalContents()[0]
		items, lay := c11Base(l, 2)
		lay.Pad = []byte{1, 0xff, 0xff}
		lay.GroupOrder = ref.TSGroupOrder
		u := unknownRec(0x99, 5)
		items = append([]ref.Item{{Rec: &u}}, items...)
		add("ref-encoder/padded-unknown", ref.EncodeFile(&ref.Header{Profile: "p"}, items, lay).Bytes)
	}
	return out
}

// ---------------------------------------------------------------- entry points

const c10Entries = 12

var c10EntryNames = []string{"Lexer.Next", "Lexer.Next(validate,emitInvalid)", "Lexer.Next(limits 1MiB,validate)", "Lexer.Next(emitChunks)+Parse*", "Lexer.Next(no callback, seekable)",
	"Reader.Info+ChannelCounts", "Messages(unindexed)", "Messages(indexed,file order,metadata callback)", "Messages(log time)", "Messages(reverse)", "GetAttachmentReader/GetMetadata", "Lexer.Next(emitChunks, limits 1MiB)"}

func attCallback(ar *mcap.AttachmentReader) error {
	if _, err := io.Copy(io.Discard, ar.Data()); err != nil {
		return err
	}
	if _, err := ar.ComputedCRC(); err != nil {
		return err
	}
	_, err := ar.ParsedCRC()
	return err
}

func lexAll(r io.Reader, lo *mcap.LexerOptions, limit int, parse bool) error {
	l, err := mcap.NewLexer(r, lo)
	if err != nil {
		return err
	}
	defer l.Close()
	for n := 0; n < limit; n++ {
		tt, body, err := l.Next(nil)
		if err != nil {
			if tt == mcap.TokenInvalidChunk {
				continue
			}
			if errors.Is(err, io.EOF) {
				return nil
			}
			return err
		}
		if parse {
			switch tt {
			case mcap.TokenHeader:
				_, _ = mcap.ParseHeader(body)
			case mcap.TokenFooter:
				_, _ = mcap.ParseFooter(body)
			case mcap.TokenSchema:
				_, _ = mcap.ParseSchema(body)
			case mcap.TokenChannel:
				_, _ = mcap.ParseChannel(body)
			case mcap.TokenMessage:
				_, _ = mcap.ParseMessage(body)
			case mcap.TokenChunk:
				_, _ = mcap.ParseChunk(body)
			case mcap.TokenMessageIndex:
				_, _ = mcap.ParseMessageIndex(body)
			case mcap.TokenChunkIndex:
				_, _ = mcap.ParseChunkIndex(body)
			case mcap.TokenAttachmentIndex:
				_, _ = mcap.ParseAttachmentIndex(body)
			case mcap.TokenStatistics:
				_, _ = mcap.ParseStatistics(body)
			case mcap.TokenMetadata:
				_, _ = mcap.ParseMetadata(body)
			case mcap.TokenMetadataIndex:
				_, _ = mcap.ParseMetadataIndex(body)
			case mcap.TokenSummaryOffset:
				_, _ = mcap.ParseSummaryOffset(body)
			case mcap.TokenDataEnd:
				_, _ = mcap.ParseDataEnd(body)
			}
		}
	}
	return errors.New("harness: token limit reached (the lexer does not make progress)")
}

func iterAll(b []byte, seekable bool, limit int, opts ...mcap.ReadOpt) error {
	var src io.Reader = bytes.NewReader(b)
	if !seekable {
		src = plainReader{src}
	}
	rd, err := mcap.NewReader(src)
	if err != nil {
		return err
	}
	defer rd.Close()
	it, err := rd.Messages(opts...)
	if err != nil {
		return err
	}
	msg := &mcap.Message{}
	for n := 0; n < limit; n++ {
		_, _, _, err := it.NextInto(msg)
		if err != nil {
			if errors.Is(err, io.EOF) {
				return nil
			}
			return err
		}
	}
	return errors.New("harness: message limit reached (the iterator does not make progress)")
}

// runEntry runs one decode entry point over b.
func runEntry(e int, b []byte) iso.Outcome {
	limit := len(b) + 64
	site := func(p any) string { return gow.PanicSite(p) }
	var ceiling uint64
	if e == 2 || e == 11 {
		ceiling = 24<<20 + uint64(len(b))*4 // configured limits (1 MiB) x small constant + input size
	}
	o := iso.Guard(c10EntryNames[e], ceiling, site, func() error {
		switch e {
		case 0:
			return lexAll(plainReader{bytes.NewReader(b)}, &mcap.LexerOptions{ComputeAttachmentCRCs: true, AttachmentCallback: attCallback}, limit, false)
		case 1:
			return lexAll(bytes.NewReader(b), &mcap.LexerOptions{ValidateChunkCRCs: true, EmitInvalidChunks: true, AttachmentCallback: attCallback}, limit, false)
		case 2:
			return lexAll(plainReader{bytes.NewReader(b)}, &mcap.LexerOptions{ValidateChunkCRCs: true, MaxRecordSize: 1 << 20, MaxDecompressedChunkSize: 1 << 20, AttachmentCallback: attCallback}, limit, false)
		case 3:
			return lexAll(bytes.NewReader(b), &mcap.LexerOptions{EmitChunks: true}, limit, true)
		case 4:
			return lexAll(bytes.NewReader(b), &mcap.LexerOptions{}, limit, false)
		case 5:
			rd, err := mcap.NewReader(bytes.NewReader(b))
			if err != nil {
				return err
			}
			defer rd.Close()
			info, err := rd.Info()
			if err != nil {
				return err
			}
			_ = info.ChannelCounts()
			_ = info.CanReadMessagesUsingIndex()
			return nil
		case 6:
			return iterAll(b, false, limit, mcap.UsingIndex(false))
		case 7:
			return iterAll(b, true, limit, mcap.UsingIndex(true), mcap.WithMetadataCallback(func(*mcap.Metadata) error { return nil }))
		case 8:
			return iterAll(b, true, limit, mcap.UsingIndex(true), mcap.InOrder(mcap.LogTimeOrder))
		case 9:
			return iterAll(b, true, limit, mcap.UsingIndex(true), mcap.InOrder(mcap.ReverseLogTimeOrder))
		case 11:
			return lexAll(bytes.NewReader(b), &mcap.LexerOptions{EmitChunks: true, MaxRecordSize: 1 << 20, MaxDecompressedChunkSize: 1 << 20}, limit, true)
		case 10:
			rd, err := mcap.NewReader(bytes.NewReader(b))
			if err != nil {
				return err
			}
			defer rd.Close()
			info, err := rd.Info()
			if err != nil {
				return err
			}
			var last error
			for _, ai := range info.AttachmentIndexes {
				ar, err := rd.GetAttachmentReader(ai.Offset)
				if err != nil {
					last = err
					continue
				}
				if err := attCallback(ar); err != nil {
					last = err
				}
			}
			for _, mi := range info.MetadataIndexes {
				if _, err := rd.GetMetadata(mi.Offset); err != nil {
					last = err
				}
			}
			return last
		}
		return nil
	})
	if o.Class == "overalloc" && e == 2 && o.Alloc < 600<<20 && bytes.Contains(b, []byte("zstd")) {
		// the zstd decoder sizes its window from the frame header (klauspost default cap 512 MiB),
		// which MaxDecompressedChunkSize does not constrain: narrow signature for the known finding
		o.Site = "zstd frame window not bounded by MaxDecompressedChunkSize"
	}
	return o
}

// ---------------------------------------------------------------- mutation families

var hostile = map[int][]uint64{
	1: {0, 1, 6, 9, 0x10, 0x7f, 0x80, 0xff},
	2: {0, 1, 0x7fff, 0x8000, 0xffff},
	4: {0, 1, 1 << 15, 1<<16 - 1, 1 << 24, 1 << 31, math.MaxUint32},
	8: {0, 1, 1<<16 - 1, 1 << 31, math.MaxUint32, 1 << 40, math.MaxInt64, 1 << 63, math.MaxUint64 - 8, math.MaxUint64},
}

func getLE(b []byte, w int) uint64 {
	switch w {
	case 1:
		return uint64(b[0])
	case 2:
		return uint64(binary.LittleEndian.Uint16(b))
	case 4:
		return uint64(binary.LittleEndian.Uint32(b))
	}
	return binary.LittleEndian.Uint64(b)
}
func putLE(b []byte, w int, v uint64) {
	switch w {
	case 1:
		b[0] = byte(v)
	case 2:
		binary.LittleEndian.PutUint16(b, uint16(v))
	case 4:
		binary.LittleEndian.PutUint32(b, uint32(v))
	default:
		binary.LittleEndian.PutUint64(b, v)
	}
}

// positional: every offset x width x (hostile values + v-1 + v+1).
type posFamily struct{ seed *c10Seed }

var widths = []int{1, 2, 4, 8}

func (f posFamily) perPos() int { // values per (position): sum over widths of (len(hostile)+2)
	n := 0
	for _, w := range widths {
		n += len(hostile[w]) + 2
	}
	return n
}
func (f posFamily) count() int { return len(f.seed.bytes) * f.perPos() }
func (f posFamily) mutant(i int) ([]byte, string) {
	pos := i / f.perPos()
	k := i % f.perPos()
	for _, w := range widths {
		n := len(hostile[w]) + 2
		if k < n {
			if pos+w > len(f.seed.bytes) {
				return nil, ""
			}
			cur := getLE(f.seed.bytes[pos:], w)
			var v uint64
			switch {
			case k < len(hostile[w]):
				v = hostile[w][k]
			case k == len(hostile[w]):
				v = cur - 1
			default:
				v = cur + 1
			}
			mask := uint64(math.MaxUint64)
			if w < 8 {
				mask = 1<<(8*uint(w)) - 1
			}
			v &= mask
			if v == cur {
				return nil, ""
			}
			b := append([]byte(nil), f.seed.bytes...)
			putLE(b[pos:], w, v)
			return b, fmt.Sprintf("%d bytes at offset %d: %d -> %d", w, pos, cur, v)
		}
		k -= n
	}
	return nil, ""
}

// structural: records duplicated / removed / swapped with the next; near-2^31 values on the length
// field of one record per kind; compression names of length 0..40.
type structFamily struct{ seed *c10Seed }

func (f structFamily) mutants() []func() ([]byte, string) {
	var out []func() ([]byte, string)
	s := f.seed
	recs := s.dec.Recs
	for i := range recs {
		r := &recs[i]
		i := i
		out = append(out, func() ([]byte, string) {
			b := append([]byte(nil), s.bytes[:r.End()]...)
			b = append(b, s.bytes[r.Off:r.End()]...)
			return append(b, s.bytes[r.End():]...), fmt.Sprintf("%s record at %d duplicated", ref.OpName(r.Op), r.Off)
		})
		out = append(out, func() ([]byte, string) {
			b := append([]byte(nil), s.bytes[:r.Off]...)
			return append(b, s.bytes[r.End():]...), fmt.Sprintf("%s record at %d removed", ref.OpName(r.Op), r.Off)
		})
		if i+1 < len(recs) {
			nx := &recs[i+1]
			out = append(out, func() ([]byte, string) {
				b := append([]byte(nil), s.bytes[:r.Off]...)
				b = append(b, s.bytes[nx.Off:nx.End()]...)
				b = append(b, s.bytes[r.Off:r.End()]...)
				return append(b, s.bytes[nx.End():]...), fmt.Sprintf("%s at %d swapped with the following %s", ref.OpName(r.Op), r.Off, ref.OpName(nx.Op))
			})
		}
	}
	return out
}

// nearLimit: values just below 2^31 legitimately allocate ~2 GiB (1-3 s of page faults each):
// they are applied to the length field of the first record of selected kinds only, through three
// entry points, two workers at a time.
func (f structFamily) nearLimit(kinds map[byte]bool) []func() ([]byte, string) {
	var out []func() ([]byte, string)
	s := f.seed
	recs := s.dec.Recs
	seen := map[byte]bool{}
	for i := range recs {
		r := &recs[i]
		if seen[r.Op] || (kinds != nil && !kinds[r.Op]) {
			continue
		}
		seen[r.Op] = true
		for _, v := range []uint64{1<<30 + 1, math.MaxInt32 - 1, math.MaxInt32} {
			v := v
			out = append(out, func() ([]byte, string) {
				b := append([]byte(nil), s.bytes...)
				binary.LittleEndian.PutUint64(b[r.Off+1:], v)
				return b, fmt.Sprintf("length of the %s record at %d set to %d", ref.OpName(r.Op), r.Off, v)
			})
		}
	}
	return out
}

func (f structFamily) compressionNames() []func() ([]byte, string) {
	var out []func() ([]byte, string)
	s := f.seed
	recs := s.dec.Recs
	// compression names of every length 0..40 on the first chunk (record and field lengths fixed up)
	for i := range recs {
		r := &recs[i]
		if r.Op != ref.OpChunk {
			continue
		}
		for L := 0; L <= 40; L++ {
			L := L
			out = append(out, func() ([]byte, string) {
				ch := r.Chunk
				name := bytes.Repeat([]byte{'q'}, L)
				var body []byte
				body = binary.LittleEndian.AppendUint64(body, ch.StartTime)
				body = binary.LittleEndian.AppendUint64(body, ch.EndTime)
				body = binary.LittleEndian.AppendUint64(body, ch.UncompressedSize)
				body = binary.LittleEndian.AppendUint32(body, ch.UncompressedCRC)
				body = binary.LittleEndian.AppendUint32(body, uint32(L))
				body = append(body, name...)
				body = binary.LittleEndian.AppendUint64(body, uint64(len(ch.Records)))
				body = append(body, ch.Records...)
				b := append([]byte(nil), s.bytes[:r.Off]...)
				b = append(b, ref.OpChunk)
				b = binary.LittleEndian.AppendUint64(b, uint64(len(body)))
				b = append(b, body...)
				return append(b, s.bytes[r.End():]...), fmt.Sprintf("compression name of the chunk at %d replaced by %d bytes", r.Off, L)
			})
		}
		break
	}
	return out
}

// legitBig reports whether a mutant drives a top-level record length or a chunk's uncompressed size
// into [4 MiB, 2 GiB): the library may then legitimately allocate up to its documented 2 GiB
// ceiling, which costs seconds of page clearing per call. Such mutants are run by the thorough
// tier only (through all entry points); the quick tier lists how many it deferred.
func legitBig(b []byte) bool {
	const lo, hi = 4 << 20, math.MaxInt32
	off := 8
	for off+9 <= len(b) {
		n := binary.LittleEndian.Uint64(b[off+1:])
		if n >= lo && n < hi {
			return true
		}
		if b[off] == ref.OpChunk && off+9+24 <= len(b) {
			if u := binary.LittleEndian.Uint64(b[off+9+16:]); u >= lo/2 && u < hi {
				return true
			}
		}
		if n > uint64(len(b)-off-9) {
			return false
		}
		off += 9 + int(n)
	}
	return false
}

// C10: no input can crash or exhaust the process; bad files yield errors.
func C10(r *chk.Run) {
	r.Rule("bounded-exhaustive structured mutation of valid seed files in isolated workers (ulimit -v 8 GiB, 64 MiB stack, 30 s per call, per-call allocation accounting): POSITION-EXHAUSTIVE depth 1 - for every byte offset of every seed and every width in {1,2,4,8} the bytes are overwritten with each hostile value of that width {0,1,...,2^15,2^16-1,2^31,2^32-1,2^40,2^63-1,2^63,2^64-9,2^64-1} and with v-1, v+1 (every length/offset/size/count/time/id/opcode field starts at some offset); STRUCTURAL - every record duplicated / removed / swapped with its neighbour, values just below 2^31 on one length field per record kind, compression names of every length 0..40; OVERSIZED PAIRS - every 32-bit length field set to 2^26 together with its record's length set beyond it; SIBLING VALUES - every length/size/offset/count field set to each value the same field has in another record of the same kind; TRUNCATED RECORDS - every record (top level and inside chunks) with its body cut by 1..24 bytes and by half, lengths fixed up, and cut by 1..17 bytes with the trailing length-prefixed field reduced alike; NESTED - every top-level record (the chunk itself included) copied to the front/middle/end of every chunk's records with sizes fixed up and recompressed, chunk records replaced by the whole file / by nothing; SPLICED - for every ordered pair of records a chimera body (half of one, half of the other) and the byte stream cut from the middle of one into the middle of the other; thorough: DEPTH 2 - every pair of length/size/offset/count fields x reduced hostile values {0, 2^31, 2^63, max, v-1, v+1}; every mutant goes through 12 decode entry points (lexer under 6 option sets incl. every Parse*, Info+ChannelCounts, 4 iterator modes, random access); outcome must be ok or error - never panic, process death, stall or allocation beyond the ceilings; distinct = entry-point calls")
	r.Assume("mutants that legitimately allocate up to the documented 2 GiB ceiling (seconds of page clearing each) are run by the near-2GiB family and, in thorough, by the positional family of the first seed; elsewhere they are counted as deferred; every family gets a fair share of the time budget and reports exhaustive=false when it did not finish")
	r.Assume("seeds are written without CRCs so that no path is masked by a checksum failure; truncations are C09's; depth-2 mutations are restricted to pairs of the specification's size/offset/count fields and are thorough-only")
	seeds := c10Seeds(r.Thorough())
	thorough := r.Thorough()
	type fam struct {
		name     string
		n        int
		get      func(i int) ([]byte, string)
	}
	var fams []fam
	for _, s := range seeds {
		sf := structFamily{s}
		ms := append(sf.mutants(), sf.compressionNames()...)
		fams = append(fams, fam{"structural/" + s.name, len(ms), func(i int) ([]byte, string) { return ms[i]() }})
		ns := sf.nested()
		fams = append(fams, fam{"nested/" + s.name, len(ns), func(i int) ([]byte, string) { return ns[i]() }})
		sb := sf.siblings()
		fams = append(fams, fam{"sibling-values/" + s.name, len(sb), func(i int) ([]byte, string) { return sb[i]() }})
		ov := sf.oversized()
		fams = append(fams, fam{"oversized-pairs/" + s.name, len(ov), func(i int) ([]byte, string) { return ov[i]() }})
		ts := sf.truncated()
		fams = append(fams, fam{"truncated-records/" + s.name, len(ts), func(i int) ([]byte, string) { return ts[i]() }})
	}
	for si, s := range seeds {
		if !thorough && si > 0 {
			break
		}
		sp := structFamily{s}.spliced()
		fams = append(fams, fam{"spliced/" + s.name, len(sp), func(i int) ([]byte, string) { return sp[i]() }})
	}
	{
		kinds := map[byte]bool{ref.OpHeader: true, ref.OpMetadata: true, ref.OpStatistics: true}
		if r.Thorough() {
			kinds = nil
		}
		nl := structFamily{seeds[0]}.nearLimit(kinds)
		fams = append(fams, fam{"near-2GiB-lengths/" + seeds[0].name, len(nl), func(i int) ([]byte, string) { return nl[i]() }})
	}
	for si, s := range seeds {
		if !thorough && si > 0 {
			break // quick: position-exhaustive over the uncompressed seed; thorough: over every seed
		}
		pf := posFamily{s}
		fams = append(fams, fam{"positional/" + s.name, pf.count(), pf.mutant})
	}
	if thorough {
		// depth 2: every pair of size/offset/count fields of the uncompressed seed (last: it is the largest family)
		pf := newPairFamily(seeds[0])
		fams = append(fams, fam{"field-pairs/" + seeds[0].name, pf.count(), pf.mutant})
	}
	if one := os.Getenv("VERIF_C10_ONE"); one != "" && !iso.IsWorker() {
		// debugging aid: VERIF_C10_ONE=<family>:<index> runs one mutant in-process with timings
		var name string
		var idx int
		if k := strings.LastIndex(one, ":"); k > 0 {
			name = one[:k]
			fmt.Sscan(one[k+1:], &idx)
		}
		for _, f := range fams {
			if f.name == name {
				b, d := f.get(idx)
				fmt.Printf("%s #%d: %s (%d bytes)\n", name, idx, d, len(b))
				for e := 0; e < c10Entries && b != nil; e++ {
					t0 := time.Now()
					o := runEntry(e, b)
					fmt.Printf("  %-50s %-8s %8.1fms alloc=%d %s\n", c10EntryNames[e], o.Class, float64(time.Since(t0).Microseconds())/1000, o.Alloc, o.Site)
				}
			}
		}
		os.Exit(0)
	}
	if !thorough {
		// quick, for a loaded machine: the cheap families without large allocations first, then the
		// position-exhaustive one, then those whose mutants allocate up to the 2 GiB ceiling
		rank := func(n string) int {
			switch {
			case strings.HasPrefix(n, "truncated-records/"), strings.HasPrefix(n, "nested/"), strings.HasPrefix(n, "sibling-values/"), strings.HasPrefix(n, "oversized-pairs/"):
				return 0
			case strings.HasPrefix(n, "positional/"):
				return 1
			}
			return 2
		}
		sort.SliceStable(fams, func(i, j int) bool { return rank(fams[i].name) < rank(fams[j].name) })
	}
	// fair shares: a family may use the time left divided by the work left (in mutants), but at least
	// its equal share, so that a slow family cannot starve the ones after it; what a family does not
	// use goes to the rest
	remainingWork := 0
	for _, f := range fams {
		remainingWork += f.n
	}
	for fi, f := range fams {
		f := f
		famDeadline := r.Deadline
		if left := time.Until(r.Deadline); left > 0 && remainingWork > 0 {
			share := time.Duration(float64(left) * float64(f.n) / float64(remainingWork))
			if eq := left / time.Duration(len(fams)-fi); share < eq {
				share = eq
			}
			famDeadline = time.Now().Add(share)
		}
		remainingWork -= f.n
		if !r.TimeLeft() && !iso.IsWorker() {
			r.Count(f.name, 0, 0, 0, false, map[string]any{"skipped": "internal deadline"})
			continue
		}
		fn := func(i int) []iso.Outcome {
			// one input = one (mutant, entry point) call, so that a worker can be recycled between calls
			b, d := f.get(i / c10Entries)
			if b == nil {
				return nil
			}
			if !strings.HasPrefix(f.name, "near-2GiB") && !(thorough && f.name == "positional/"+seeds[0].name) && legitBig(b) {
				return []iso.Outcome{{Class: "deferred-legit-2GiB-allocation"}}
			}
			e := i % c10Entries
			if strings.HasPrefix(d, "length of the ") && e != 0 && e != 5 && e != 7 {
				return nil // near-2^31 lengths legitimately allocate ~2 GiB per call: three entry points only
			}
			return []iso.Outcome{runEntry(e, b)}
		}
		replayIso(r, f.name, fn)
		if r.Replay != nil {
			continue
		}
		if rg := os.Getenv("VERIF_C10_RANGE"); rg != "" && !iso.IsWorker() {
			var name string
			var from, to int
			parts := strings.Split(rg, ":")
			if len(parts) == 3 && parts[0] == f.name {
				name = parts[0]
				fmt.Sscan(parts[1], &from)
				fmt.Sscan(parts[2], &to)
				iso.FenceHeap()
				for i := from; i <= to; i++ {
					t0 := time.Now()
					o := fn(i)
					if d := time.Since(t0); d > 20*time.Millisecond || i == to {
						fmt.Printf("%s call %d: %v %+v\n", name, i, d, o)
					}
				}
				os.Exit(0)
			}
			continue
		}
		total := f.n * c10Entries
		batch := total/(r.Workers*6) + 1
		nw := r.Workers
		if strings.HasPrefix(f.name, "near-2GiB") {
			batch, nw = 1, 2
		}
		t0 := time.Now()
		res := iso.Run("C10/"+f.name, total, batch, nw, 30*time.Second, famDeadline, fn)
		wall := time.Since(t0).Seconds()
		r.Count(f.name, res.Calls, res.Inputs, res.Calls, res.Exhaustive, map[string]any{"mutants": f.n, "entry_point_calls": res.Calls, "outcome_classes": res.ByClass, "wall_s": wall, "worker_restarts": res.Restarts, "workers_recycled_after_big_allocation": res.Recycled, "not_reproducible_alone": len(res.NotRepro)})
		reportBad(r, "C10", f.name, res, func(i int) any {
			b, d := f.get(i / c10Entries)
			return map[string]any{"mutation": d, "file_hex": fmt.Sprintf("%x", b)}
		})
	}
	r.Nontrivial(0)
}
