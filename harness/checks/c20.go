package checks

import (
	"bytes"
	"encoding/binary"
	"errors"
	"fmt"
	"hash/crc32"
	"io"
	"runtime"
	"runtime/debug"

	mcap "github.com/foxglove/mcap/go/mcap"

	"verif/harness/chk"
	"verif/harness/explore"
	"verif/harness/gow"
	"verif/harness/ref"
)

// bigFamily builds N chunks whose time ranges overlap with depth d in one of three shapes.
func bigFamily(n, d, shape int) [][]arrMsg {
	chunks := make([][]arrMsg, n)
	for i := 0; i < n; i++ {
		var lo, hi uint64
		switch shape {
		case 0: // sliding window: chunk i covers [10i, 10i+10d-1]
			lo, hi = uint64(10*i), uint64(10*i+10*d-1)
		case 1: // nested groups of d chunks
			g, j := i/d, i%d
			lo, hi = uint64(1000*g+j), uint64(1000*g+999-j)
		case 2: // staircase: groups of d chunks sharing a start, growing ends
			g, j := i/d, i%d
			lo, hi = uint64(1000*g), uint64(1000*g+10*(j+1))
		}
		mid := lo + (hi-lo)/2
		ch := uint16(1 + i%3)
		chunks[i] = []arrMsg{{ch: ch, t: lo}, {ch: 1, t: mid}, {ch: ch, t: hi}, {ch: 2, t: mid}}
	}
	return chunks
}

// sized returns the sliding-window family with chunk sizes growing (dir>0) or shrinking (dir<0)
// along the file, so that every chunk is larger than all chunks loaded before it in some read order.
func sizedFamily(n, d, dir int) [][]arrMsg {
	chunks := make([][]arrMsg, n)
	for i := 0; i < n; i++ {
		lo, hi := uint64(10*i), uint64(10*i+10*d-1)
		k := i + 2
		if dir < 0 {
			k = n - i + 1
		}
		for j := 0; j < k; j++ {
			t := lo + uint64(j)*(hi-lo)/uint64(k-1)
			chunks[i] = append(chunks[i], arrMsg{ch: uint16(1 + j%3), t: t})
		}
	}
	return chunks
}

func c20BigBody(ns []int, comps []string) explore.Body {
	return func(x *explore.Ctx) *explore.Verdict {
		n := ns[x.Choose("layout", len(ns))]
		d := 1 + x.Choose("layout", 8)
		shape := x.Choose("layout", 5)
		comp := comps[x.Choose("cfg", len(comps))]
		filter := x.Choose("cfg", 3) // none | topic | time window
		var chunks [][]arrMsg
		switch shape {
		case 3:
			if n > 100 {
				n = 100
			}
			chunks = sizedFamily(n, d, +1)
		case 4:
			if n > 100 {
				n = 100
			}
			chunks = sizedFamily(n, d, -1)
		default:
			chunks = bigFamily(n, d, shape)
		}
		a := buildArrangement(chunks, comp)
		depth := a.overlapDepth(func(int) bool { return true })
		largest := 0
		dec := ref.Decode(a.bytes, true)
		for i := range dec.Recs {
			if dec.Recs[i].Op == ref.OpChunk && len(dec.Recs[i].Chunk.Uncompressed) > largest {
				largest = len(dec.Recs[i].Chunk.Uncompressed)
			}
		}
		x.Note = func() any {
			return map[string]any{"chunks": n, "wanted_depth": d, "shape": []string{"sliding", "nested", "staircase", "sliding-growing-chunks", "sliding-shrinking-chunks"}[shape], "compression": comp, "filter": filter, "model_overlap_depth": depth}
		}
		ctxs := fmt.Sprintf(" — N=%d d=%d shape=%d comp=%q filter=%d overlap depth %d", n, d, shape, comp, filter, depth)
		x.Ops += 4 * n
		x.State = explore.Hash([]byte(fmt.Sprint(n, d, shape, comp, filter)))
		var fopts []mcap.ReadOpt
		switch filter {
		case 1:
			fopts = append(fopts, mcap.WithTopics([]string{"b"}))
		case 2:
			fopts = append(fopts, mcap.AfterNanos(uint64(5*n)), mcap.BeforeNanos(uint64(5*n+400)))
		}
		for _, order := range []mcap.ReadOrder{mcap.FileOrder, mcap.LogTimeOrder, mcap.ReverseLogTimeOrder} {
			maxSlots, maxCap, maxRec := 0, 0, 0
			maxPending, maxQueue := 0, 0
			hook := func(it mcap.MessageIterator, k int) {
				if st, ok := mcap.VerifSlots(it); ok {
					if st.Pending > maxPending {
						maxPending = st.Pending
					}
					if st.QueueCap > maxQueue {
						maxQueue = st.QueueCap
					}
					if st.Slots > maxSlots {
						maxSlots = st.Slots
					}
					if st.Capacity > maxCap {
						maxCap = st.Capacity
					}
					if st.RecordBuf > maxRec {
						maxRec = st.RecordBuf
					}
				}
			}
			opts := append([]mcap.ReadOpt{mcap.UsingIndex(true), mcap.InOrder(order)}, fopts...)
			ir := gow.Iterate(bytes.NewReader(a.bytes), gow.NextIntoReused, false, hook, 0, opts...)
			x.Add("reads", 1)
			if ir.Panic != "" || ir.Failed() != nil {
				return vio("C20:read-failed", "read failed: %v %s%s", ir.Failed(), ir.Panic, ctxs)
			}
			bound := depth
			if order == mcap.FileOrder || bound < 1 {
				bound = 1
			}
			if maxSlots > bound {
				return vio("C20:slots-exceed-overlap-depth", "order %d: %d chunk slots allocated; at most %d chunk time ranges overlap%s", order, maxSlots, bound, ctxs)
			}
			if maxCap > bound*largest*2+4096 {
				return vio("C20:slot-capacity", "order %d: slot buffers total %d bytes; bound %d x largest chunk %d x 2%s", order, maxCap, bound, largest, ctxs)
			}
			// the queue of message index entries holds what is pending (yielded entries are dropped when
			// they outnumber the live ones), not one entry per message ever read
			if maxQueue > 16*(maxPending+1)+256 {
				return vio("C20:index-queue-capacity", "order %d: the message index queue grew to %d entries; at most %d were pending at any time%s", order, maxQueue, maxPending, ctxs)
			}
			if maxRec > 3*(largest+64)+4096 {
				return vio("C20:record-buffer", "order %d: compressed-chunk buffer %d bytes; largest chunk %d%s", order, maxRec, largest, ctxs)
			}
		}
		// sequential read: one record / one chunk at most
		for _, validate := range []bool{false, true} {
			l, err := mcap.NewLexer(bytes.NewReader(a.bytes), &mcap.LexerOptions{ValidateChunkCRCs: validate})
			if err != nil {
				return vio("C20:read-failed", "NewLexer: %v%s", err, ctxs)
			}
			maxChunk := 0
			for {
				_, _, err := l.Next(nil)
				if c := mcap.VerifLexerChunkCap(l); c > maxChunk {
					maxChunk = c
				}
				if err != nil {
					break
				}
			}
			l.Close()
			if maxChunk > 2*largest+4096 {
				return vio("C20:lexer-chunk-buffer", "lexer(validate=%v) chunk buffer %d bytes; largest chunk %d%s", validate, maxChunk, largest, ctxs)
			}
		}
		rd, err := mcap.NewReader(plainReader{bytes.NewReader(a.bytes)})
		if err == nil {
			it, err := rd.Messages(mcap.UsingIndex(false))
			if err == nil {
				maxRec := 0
				msg := &mcap.Message{}
				for {
					_, _, _, err := it.NextInto(msg)
					if rb, cb, ok := mcap.VerifUnindexedBuf(it); ok && rb+cb > maxRec {
						maxRec = rb + cb
					}
					if err != nil {
						break
					}
				}
				if maxRec > 2*largest+4096 {
					return vio("C20:sequential-buffer", "non-indexed iterator buffers %d bytes; largest chunk %d%s", maxRec, largest, ctxs)
				}
			}
			rd.Close()
		}
		return nil
	}
}

// ---------------------------------------------------------------- attachment streaming

// genReader produces a stream on the fly: prefix, then n generated bytes, then suffix (never holds the data).
type genReader struct {
	prefix []byte
	n      int64
	suffix func() []byte
	off    int64
	crc    uint32
	tail   []byte
	check  func()
}

func (g *genReader) Read(p []byte) (int, error) {
	if g.check != nil {
		g.check()
	}
	if g.off < int64(len(g.prefix)) {
		n := copy(p, g.prefix[g.off:])
		g.off += int64(n)
		return n, nil
	}
	d := g.off - int64(len(g.prefix))
	if d < g.n {
		n := int64(len(p))
		if n > g.n-d {
			n = g.n - d
		}
		if n > 64<<10 {
			n = 64 << 10
		}
		for i := int64(0); i < n; i++ {
			p[i] = byte((d + i) * 131)
		}
		g.crc = crc32.Update(g.crc, crc32.IEEETable, p[:n])
		g.off += n
		return int(n), nil
	}
	if g.tail == nil {
		g.tail = g.suffix()
	}
	t := d - g.n
	if t >= int64(len(g.tail)) {
		return 0, io.EOF
	}
	n := copy(p, g.tail[t:])
	g.off += int64(n)
	return n, nil
}

type countSink struct {
	n     int64
	check func()
}

func (c *countSink) Write(p []byte) (int, error) {
	c.n += int64(len(p))
	if c.check != nil {
		c.check()
	}
	return len(p), nil
}

type dataGen struct {
	n, off int64
}

func (d *dataGen) Read(p []byte) (int, error) {
	if d.off >= d.n {
		return 0, io.EOF
	}
	n := int64(len(p))
	if n > d.n-d.off {
		n = d.n - d.off
	}
	for i := int64(0); i < n; i++ {
		p[i] = byte((d.off + i) * 131)
	}
	d.off += n
	return int(n), nil
}

func liveHeap() uint64 {
	runtime.GC()
	var ms runtime.MemStats
	runtime.ReadMemStats(&ms)
	return ms.HeapAlloc
}

func totalAlloc() uint64 {
	var ms runtime.MemStats
	runtime.ReadMemStats(&ms)
	return ms.TotalAlloc
}

// attachmentStream builds the streamed form of a file holding one attachment of the given size
// followed by a channel and a message, without materialising the data.
func attachmentStream(size int64) *genReader {
	var pre []byte
	pre = append(pre, ref.Magic...)
	hb := ref.BodyHeader(&ref.Header{})
	pre = append(pre, ref.OpHeader)
	pre = binary.LittleEndian.AppendUint64(pre, uint64(len(hb)))
	pre = append(pre, hb...)
	var fields []byte
	fields = binary.LittleEndian.AppendUint64(fields, 1)
	fields = binary.LittleEndian.AppendUint64(fields, 2)
	fields = binary.LittleEndian.AppendUint32(fields, 1)
	fields = append(fields, 'a')
	fields = binary.LittleEndian.AppendUint32(fields, 1)
	fields = append(fields, 'm')
	fields = binary.LittleEndian.AppendUint64(fields, uint64(size))
	pre = append(pre, ref.OpAttachment)
	pre = binary.LittleEndian.AppendUint64(pre, uint64(len(fields))+uint64(size)+4)
	pre = append(pre, fields...)
	g := &genReader{prefix: pre, n: size}
	g.crc = crc32.Update(0, crc32.IEEETable, fields)
	g.suffix = func() []byte {
		var t []byte
		t = binary.LittleEndian.AppendUint32(t, g.crc)
		ch := ref.BodyChannel(&ref.Channel{ID: 1, Topic: "t"})
		t = append(t, ref.OpChannel)
		t = binary.LittleEndian.AppendUint64(t, uint64(len(ch)))
		t = append(t, ch...)
		m := ref.BodyMessage(&ref.Message{ChannelID: 1, Sequence: 1, LogTime: 3, Data: []byte{1, 2, 3}})
		t = append(t, ref.OpMessage)
		t = binary.LittleEndian.AppendUint64(t, uint64(len(m)))
		t = append(t, m...)
		t = append(t, ref.OpDataEnd)
		t = binary.LittleEndian.AppendUint64(t, 4)
		t = append(t, 0, 0, 0, 0)
		t = append(t, ref.OpFooter)
		t = binary.LittleEndian.AppendUint64(t, 20)
		t = append(t, make([]byte, 20)...)
		t = append(t, ref.Magic...)
		return t
	}
	return g
}

const streamSlack = 3 << 20 // generous fixed slack: the property is "independent of the attachment size"

func c20AttachBody(sizes []int64) explore.Body {
	return func(x *explore.Ctx) *explore.Verdict {
		size := sizes[x.Choose("arg", len(sizes))]
		mode := x.Choose("cfg", 6)
		names := []string{"writer: WriteAttachment from a generator into a counting sink", "lexer with a callback draining to io.Discard", "lexer without a callback (non-seekable source)", "non-indexed iterator over a non-seekable source", "lexer with a callback that ignores the data", "unchunked writer with default options: WriteAttachment from a generator into a counting sink"}
		x.Note = func() any { return map[string]any{"attachment_bytes": size, "mode": names[mode]} }
		ctxs := fmt.Sprintf(" — %s, attachment of %d bytes", names[mode], size)
		x.State = explore.Hash([]byte(fmt.Sprint(size, mode)))
		x.Ops++
		debug.SetGCPercent(50)
		defer debug.SetGCPercent(100)
		base := liveHeap()
		peak := base
		calls := 0
		check := func() {
			calls++
			if calls%16 == 0 {
				if h := liveHeap(); h > peak {
					peak = h
				}
			}
		}
		alloc0 := totalAlloc()
		switch mode {
		case 0, 5:
			sink := &countSink{check: check}
			wo := &mcap.WriterOptions{IncludeCRC: true, Chunked: true, ChunkSize: 1024}
			if mode == 5 {
				wo = &mcap.WriterOptions{}
			}
			w, err := mcap.NewWriter(sink, wo)
			if err != nil {
				return vio("C20:harness", "%v", err)
			}
			_ = w.WriteHeader(&mcap.Header{})
			err = w.WriteAttachment(&mcap.Attachment{Name: "a", MediaType: "m", DataSize: uint64(size), Data: &dataGen{n: size}})
			if err != nil {
				return vio("C20:attachment-write-failed", "WriteAttachment: %v%s", err, ctxs)
			}
			_ = w.Close()
			if sink.n < size {
				return vio("C20:attachment-write-failed", "sink received %d bytes%s", sink.n, ctxs)
			}
		case 1, 2, 4:
			g := attachmentStream(size)
			g.check = check
			lo := &mcap.LexerOptions{ComputeAttachmentCRCs: true}
			var got int64
			if mode == 1 {
				lo.AttachmentCallback = func(ar *mcap.AttachmentReader) error {
					n, err := io.Copy(io.Discard, ar.Data())
					got = n
					return err
				}
			}
			if mode == 4 {
				lo.AttachmentCallback = func(ar *mcap.AttachmentReader) error { return nil }
			}
			l, err := mcap.NewLexer(g, lo)
			if err != nil {
				return vio("C20:harness", "%v", err)
			}
			nmsg := 0
			for {
				tt, _, err := l.Next(nil)
				if err != nil {
					if !errors.Is(err, io.EOF) {
						return vio("C20:stream-read-failed", "lexer: %v%s", err, ctxs)
					}
					break
				}
				if tt == mcap.TokenMessage {
					nmsg++
				}
			}
			if nmsg != 1 || (mode == 1 && got != size) {
				return vio("C20:stream-read-failed", "read %d messages, %d attachment bytes%s", nmsg, got, ctxs)
			}
		case 3:
			g := attachmentStream(size)
			g.check = check
			ir := gow.Iterate(g, gow.NextIntoReused, false, func(it mcap.MessageIterator, n int) {
				if rb, cb, ok := mcap.VerifUnindexedBuf(it); ok && int64(rb+cb) > 1<<20 && int64(rb+cb) > size/2 {
					peak = base + uint64(rb+cb) + streamSlack + 1 // the iterator retains a buffer as large as the attachment
				}
			}, 0, mcap.UsingIndex(false))
			if ir.Failed() != nil || len(ir.Triples) != 1 {
				return vio("C20:stream-read-failed", "iterator: %v, %d messages%s", ir.Failed(), len(ir.Triples), ctxs)
			}
		}
		if h := liveHeap(); h > peak {
			peak = h
		}
		alloc := totalAlloc() - alloc0
		x.Add("bytes_streamed", size)
		if peak > base+streamSlack {
			v := vio("C20:stream-live-heap", "live heap grew by %d bytes while streaming (baseline %d)%s", peak-base, base, ctxs)
			v.Volatile = true
			return v
		}
		if size >= 4<<20 && alloc > uint64(size)/2+streamSlack {
			v := vio("C20:stream-total-alloc", "%d bytes allocated in total while streaming%s", alloc, ctxs)
			v.Volatile = true
			return v
		}
		return nil
	}
}

// C20: reading and writing need memory for a few chunks, not the file.
func C20(r *chk.Run) {
	r.Rule("(a) every arrangement of <=3 chunks x <=3 messages over 4 timestamps: after every NextInto the verif hook reports chunk slots allocated <= max(1, D), D = largest number of chunk time ranges sharing a point (exactly 1 in file order); (b) deterministic families N in {10,100[,1000]} chunks x overlap depth 1..8 x {sliding, nested, staircase, growing chunk sizes, shrinking chunk sizes} x compression x filter x 3 orders, with slot count, slot capacity, message-index queue capacity, compressed-chunk buffer, lexer chunk buffer and non-indexed iterator buffers bounded by D x largest chunk; (c) attachments of 1 KiB..16 MiB [256 MiB] streamed through writer, lexer (3 callback modes) and non-indexed iterator from generators that never hold the data, live heap sampled inside the callbacks; distinct = distinct (file, mode) cases")
	r.Assume("memory oracles use generous fixed slack (3 MiB / factor 2) and no time component; the constant factors are engineering bounds, the check decides 'bounded by overlap depth, independent of N and of attachment size'")
	one := func(x *explore.Ctx) ([][]arrMsg, string) { return genArrangement(x, 1, 3, 3, c03Domain, []uint16{1}), "" }
	ns := []int{10, 100}
	sizes := []int64{1 << 10, 1 << 20, 16 << 20}
	comps := []string{"", "lz4"}
	if r.Thorough() {
		ns = []int{10, 100, 1000}
		sizes = []int64{1 << 10, 64 << 10, 1 << 20, 16 << 20, 256 << 20}
		comps = []string{"", "zstd", "lz4"}
	}
	r.Phase("slots-3x3", c03Body("C20", one), chk.PhaseOpts{Share: 0.5})
	r.Phase("families-N-chunks-depth-1..8", c20BigBody(ns, comps), chk.PhaseOpts{Share: 0.7, SplitLen: 4})
	r.Phase("attachment-streaming", c20AttachBody(sizes), chk.PhaseOpts{Quiet: true})
}
