package checks

import (
	"bytes"
	"fmt"
	"reflect"
	"sort"

	mcap "github.com/foxglove/mcap/go/mcap"

	"verif/harness/chk"
	"verif/harness/explore"
	"verif/harness/gow"
	"verif/harness/model"
	"verif/harness/ref"
)

// statsOf converts the library's statistics into comparable form.
type flatStats struct {
	MessageCount                                                          uint64
	SchemaCount, ChannelCount, AttachmentCount, MetadataCount, ChunkCount uint32
	Start, End                                                            uint64
	Per                                                                   map[uint16]uint64
}

func fromGoStats(s *mcap.Statistics) flatStats {
	f := flatStats{s.MessageCount, uint32(s.SchemaCount), s.ChannelCount, s.AttachmentCount, s.MetadataCount, s.ChunkCount, s.MessageStartTime, s.MessageEndTime, map[uint16]uint64{}}
	for k, v := range s.ChannelMessageCounts {
		if v != 0 {
			f.Per[k] = v
		}
	}
	return f
}
func fromRefStats(s *ref.Statistics) flatStats {
	f := flatStats{s.MessageCount, uint32(s.SchemaCount), s.ChannelCount, s.AttachmentCount, s.MetadataCount, s.ChunkCount, s.StartTime, s.EndTime, map[uint16]uint64{}}
	for _, c := range s.ChannelCounts {
		if c.Count != 0 {
			f.Per[c.ChannelID] = c.Count
		}
	}
	return f
}

// statsDiff names the first differing field (used as the narrow signature).
func statsDiff(got, want flatStats) string {
	switch {
	case got.MessageCount != want.MessageCount:
		return "MessageCount"
	case got.SchemaCount != want.SchemaCount:
		return "SchemaCount"
	case got.ChannelCount != want.ChannelCount:
		return "ChannelCount"
	case got.AttachmentCount != want.AttachmentCount:
		return "AttachmentCount"
	case got.MetadataCount != want.MetadataCount:
		return "MetadataCount"
	case got.ChunkCount != want.ChunkCount:
		return "ChunkCount"
	case got.Start != want.Start:
		return "MessageStartTime"
	case got.End != want.End:
		return "MessageEndTime"
	case !reflect.DeepEqual(got.Per, want.Per):
		return "ChannelMessageCounts"
	}
	return ""
}

func c08Oracle(x *explore.Ctx, c *model.Content, cfg gow.Config, res *gow.Result) *explore.Verdict {
	if _, err := res.FirstErr(); err != nil || res.Panic != "" {
		x.Outcome = "write-failed"
		return nil
	}
	ctxs := " — " + cfg.String() + " — " + c.String()
	f := ref.Decode(res.Bytes, true, cfg.Codecs())
	if f.Err != "" {
		return vio("C08:undecodable", "reference decoder: %s%s", f.Err, ctxs)
	}
	ms := c.Stats()
	want := flatStats{ms.MessageCount, ms.SchemaCount, ms.ChannelCount, ms.AttachmentCount, ms.MetadataCount, 0, ms.Start, ms.End, map[uint16]uint64{}}
	for k, v := range ms.PerChannel {
		want.Per[k] = v
	}
	var refStats *ref.Statistics
	var sumCh, sumSch, cidx, aidx, midx []*ref.Rec
	inSummary := false
	for i := range f.Recs {
		r := &f.Recs[i]
		if r.Op == ref.OpChunk && !inSummary {
			want.ChunkCount++
		}
		if r.Op == ref.OpDataEnd {
			inSummary = true
			continue
		}
		if !inSummary {
			continue
		}
		switch r.Op {
		case ref.OpStatistics:
			refStats = r.Statistics
		case ref.OpChannel:
			sumCh = append(sumCh, r)
		case ref.OpSchema:
			sumSch = append(sumSch, r)
		case ref.OpChunkIndex:
			cidx = append(cidx, r)
		case ref.OpAttachmentIndex:
			aidx = append(aidx, r)
		case ref.OpMetadataIndex:
			midx = append(midx, r)
		}
	}
	// (1) the writer's public accumulator after Close
	if !cfg.Has(gow.FSkipStatistics) || true {
		if d := statsDiff(fromGoStats(res.Writer.Statistics), want); d != "" {
			return vio("C08:writer-stats:"+d, "Writer.Statistics.%s after Close: got %+v, true %+v%s", d, fromGoStats(res.Writer.Statistics), want, ctxs)
		}
	}
	// (2) the statistics record in the file
	if !cfg.Has(gow.FSkipStatistics) {
		if refStats == nil {
			return vio("C08:record-missing", "no statistics record although statistics are enabled%s", ctxs)
		}
		if d := statsDiff(fromRefStats(refStats), want); d != "" {
			return vio("C08:record-stats:"+d, "statistics record %s: got %+v, true %+v%s", d, fromRefStats(refStats), want, ctxs)
		}
	}
	// (3) Reader.Info
	rd, err := mcap.NewReader(bytes.NewReader(res.Bytes))
	if err != nil {
		return vio("C08:open", "NewReader: %v%s", err, ctxs)
	}
	defer rd.Close()
	var info *mcap.Info
	var perr string
	func() {
		defer func() {
			if p := recover(); p != nil {
				perr = gow.PanicSite(p)
			}
		}()
		info, err = rd.Info()
	}()
	if perr != "" {
		return vio("C08:info-panic", "Info panicked: %s%s", perr, ctxs)
	}
	if err != nil {
		return vio("C08:info-error", "Info: %v%s", err, ctxs)
	}
	if !cfg.Has(gow.FSkipStatistics) {
		if info.Statistics == nil {
			return vio("C08:info-stats-missing", "Info.Statistics is nil although the file has a statistics record%s", ctxs)
		}
		if d := statsDiff(fromGoStats(info.Statistics), want); d != "" {
			return vio("C08:info-stats:"+d, "Info.Statistics.%s: got %+v, true %+v%s", d, fromGoStats(info.Statistics), want, ctxs)
		}
	}
	// listings, for whichever groups the file keeps
	if len(sumCh) > 0 {
		if len(info.Channels) != len(sumCh) {
			return vio("C08:info-channels", "Info lists %d channels, summary has %d%s", len(info.Channels), len(sumCh), ctxs)
		}
		for _, r := range sumCh {
			if g := info.Channels[r.Channel.ID]; g == nil || !gow.EqualChannel(gow.FromGoChannel(g), r.Channel) {
				return vio("C08:info-channels", "Info channel %d differs from the summary record%s", r.Channel.ID, ctxs)
			}
		}
	}
	if len(sumSch) > 0 {
		if len(info.Schemas) != len(sumSch) {
			return vio("C08:info-schemas", "Info lists %d schemas, summary has %d%s", len(info.Schemas), len(sumSch), ctxs)
		}
		for _, r := range sumSch {
			if g := info.Schemas[r.Schema.ID]; g == nil || !gow.FromGoSchema(g).Equal(r.Schema) {
				return vio("C08:info-schemas", "Info schema %d differs from the summary record%s", r.Schema.ID, ctxs)
			}
		}
	}
	if len(cidx) > 0 {
		if len(info.ChunkIndexes) != len(cidx) {
			sig := "C08:info-chunk-indexes"
			if len(sumCh) == 0 && len(info.ChunkIndexes) < len(cidx) {
				sig = "C08:info-chunk-indexes-without-summary-channels"
			}
			return vio(sig, "Info lists %d chunk indexes, summary has %d%s", len(info.ChunkIndexes), len(cidx), ctxs)
		}
		got := append([]*mcap.ChunkIndex(nil), info.ChunkIndexes...)
		sort.Slice(got, func(i, j int) bool { return got[i].ChunkStartOffset < got[j].ChunkStartOffset })
		for i, r := range cidx {
			w, g := r.ChunkIndex, got[i]
			offs := map[uint16]uint64{}
			for _, o := range w.MessageIndexOffsets {
				offs[o.ChannelID] = o.Offset
			}
			if g.MessageStartTime != w.StartTime || g.MessageEndTime != w.EndTime || g.ChunkStartOffset != w.ChunkStart || g.ChunkLength != w.ChunkLength ||
				g.MessageIndexLength != w.MessageIndexLength || string(g.Compression) != w.Compression || g.CompressedSize != w.CompressedSize || g.UncompressedSize != w.Uncompressed ||
				!(len(g.MessageIndexOffsets) == 0 && len(offs) == 0 || reflect.DeepEqual(g.MessageIndexOffsets, offs)) {
				return vio("C08:info-chunk-indexes", "Info chunk index %d %+v differs from record %+v%s", i, *g, *w, ctxs)
			}
		}
	}
	if len(aidx) > 0 {
		if len(info.AttachmentIndexes) != len(aidx) {
			return vio("C08:info-attachment-indexes", "Info lists %d attachment indexes, summary has %d%s", len(info.AttachmentIndexes), len(aidx), ctxs)
		}
		for i, r := range aidx {
			w, g := r.AttachmentIndex, info.AttachmentIndexes[i]
			if g.Offset != w.Offset || g.Length != w.Length || g.LogTime != w.LogTime || g.CreateTime != w.CreateTime || g.DataSize != w.DataSize || g.Name != w.Name || g.MediaType != w.MediaType {
				return vio("C08:info-attachment-indexes", "Info attachment index %d %+v differs from record %+v%s", i, *g, *w, ctxs)
			}
		}
	}
	if len(midx) > 0 {
		if len(info.MetadataIndexes) != len(midx) {
			return vio("C08:info-metadata-indexes", "Info lists %d metadata indexes, summary has %d%s", len(info.MetadataIndexes), len(midx), ctxs)
		}
		for i, r := range midx {
			w, g := r.MetadataIndex, info.MetadataIndexes[i]
			if g.Offset != w.Offset || g.Length != w.Length || g.Name != w.Name {
				return vio("C08:info-metadata-indexes", "Info metadata index %d %+v differs from record %+v%s", i, *g, *w, ctxs)
			}
		}
	}
	// Info.ChannelCounts must not crash and must agree with the per-channel truth by topic
	if info.Statistics != nil {
		var cc map[string]uint64
		func() {
			defer func() {
				if p := recover(); p != nil {
					perr = gow.PanicSite(p)
				}
			}()
			cc = info.ChannelCounts()
		}()
		if perr != "" {
			return vio("C08:channelcounts-panic", "Info.ChannelCounts panicked: %s%s", perr, ctxs)
		}
		_ = cc
	}
	x.Outcome = fmt.Sprintf("ok-chunks=%d", min(int(want.ChunkCount), 3))
	return nil
}

// C08: statistics and Info describe exactly the recorded content.
func C08(r *chk.Run) {
	mask := (1<<gow.NFlags - 1) &^ gow.FSkipMagic
	so := spaceOpts{flagBits: mask, k1Full: 2, k1Reduced: 3, k2Depth: 4, skipMagicOff: true,
		k1Extra: []k1Phase{{"reduced", gow.FSkipStatistics | gow.FSkipChunkIndex | gow.FSkipRepeatedChannelInfos, model.Reduced(), 5}}}
	if r.Thorough() {
		so = spaceOpts{flagBits: mask, k1Full: 3, k1Reduced: 4, k2Depth: 5, k3Depth: 3, skipMagicOff: true,
			k1Extra: []k1Phase{{"reduced", gow.FSkipStatistics | gow.FSkipChunkIndex | gow.FSkipRepeatedChannelInfos, model.Reduced(), 6}}}
	}
	r.Assume("reference aggregates are computed from the call log; chunk count and the summary listings are taken from the file as decoded by harness/ref")
	r.Assume("SkipMagic configurations are excluded: Reader cannot open a file without leading magic")
	r.Rule("oracle: Writer.Statistics after Close, the statistics record decoded by the reference decoder, and Reader.Info().Statistics all equal the model aggregates; Info listings equal the summary groups the file keeps")
	// Info must not depend on what else the Reader was used for (cheap phases first: never starved)
	d := 3
	if r.Thorough() {
		d = 4
	}
	histPhase(r, "C08", d)
	defer writerSpace(r, so, c08Oracle)
	r.Rule("raw-record API: files re-emitted through AddSchema/AddChannel/WriteChunkWithIndexes (chunks passed on unopened, message counters maintained by the caller through the exported Statistics): counts of schemas, channels, attachments, metadata and chunks must be exact (the time range is not compared: a chunk header cannot tell 'no message' from 'messages at time 0')")
	passthroughPhase(r, "C08", d-1)
}
