package checks

import (
	"sort"
	"bytes"
	"errors"
	"fmt"
	"io"
	"sync"
	"time"

	mcap "github.com/foxglove/mcap/go/mcap"

	"verif/harness/chk"
	"verif/harness/env"
	"verif/harness/explore"
	"verif/harness/gow"
	"verif/harness/model"
	"verif/harness/ref"
)

// ---------------------------------------------------------------- file families for reader-side faults

type rfFile struct {
	cfg   gow.Config
	c     *model.Content
	bytes []byte
	dec   *ref.File
	key   string
}

// rfWorkloads: small files with several chunks, an attachment and metadata between chunks.
func rfWorkloads() []*model.Content {
	h := model.Headers[0]
	return []*model.Content{
		model.Fixed(h, model.Sch(model.S1), model.Chn(model.C1), model.Msg(1, 5, 40, 0), model.Msg(1, 6, 40, 0), model.Att(model.A1), model.Msg(1, 7, 40, 0), model.Met(model.D1), model.Msg(1, 9, 3, 0), model.Msg(1, 8, 70, 0)),
		model.Fixed(h, model.Chn(model.C0), model.Msg(0, 1, 3, 0), model.Met(model.D3), model.Sch(model.S1), model.Chn(model.C1), model.Msg(1, 2, 70, 0), model.Msg(0, 3, 0, 0), model.Att(model.A2), model.Msg(1, 4, 20, 0)),
		model.Fixed(model.Headers[1], model.Att(model.A0), model.Sch(model.S1), model.Chn(model.C1), model.Msg(1, 3, 120, 0), model.Msg(1, 3, 120, 0), model.Msg(1, 2, 5, 0)),
	}
}

type rfMode struct {
	chunked bool
	size    int64
	comp    string
	custom  int // gow.Config.Custom
}

var rfModes = []rfMode{{false, 0, "", 0}, {true, 64, "", 0}, {true, 64, "zstd", 0}, {true, 64, "lz4", 0}}

// chooseFile enumerates workload x chunk mode x CRC.
func chooseFile(x *explore.Ctx, nWork int, modes []rfMode, crcChoice bool) *rfFile {
	return chooseFileFrom(x, rfWorkloads(), nWork, modes, crcChoice)
}

func chooseFileFrom(x *explore.Ctx, ws []*model.Content, nWork int, modes []rfMode, crcChoice bool) *rfFile {
	if nWork < len(ws) {
		ws = ws[:nWork]
	}
	c := ws[x.Choose("op", len(ws))]
	m := modes[x.Choose("cfg", len(modes))]
	crc := true
	if crcChoice {
		crc = !x.Bool("cfg")
	}
	cfg := gow.Config{CRC: crc, Chunked: m.chunked, ChunkSize: m.size, Compression: m.comp, Custom: m.custom}
	x.Ops += len(c.Ops)
	key := cfg.String() + "|" + c.String()
	fileCacheMu.Lock()
	f := fileCache[key]
	fileCacheMu.Unlock()
	if f != nil {
		return f
	}
	// the writer is deterministic (C13), so the file of a (workload, configuration) pair is cached
	res := gow.Write(c, cfg, nil, nil)
	f = &rfFile{cfg: cfg, c: c, bytes: res.Bytes, key: key}
	f.dec = ref.Decode(res.Bytes, true)
	fileCacheMu.Lock()
	fileCache[key] = f
	fileCacheMu.Unlock()
	return f
}

var fileCacheMu sync.Mutex
var fileCache = map[string]*rfFile{}
var truthCache = map[string]*readOutcome{}

// truthOf caches the plain read of an intact file by a reader kind.
func truthOf(f *rfFile, kind readerKind, seekable bool) *readOutcome {
	key := fmt.Sprintf("%s|%d|%v", f.key, kind, seekable)
	fileCacheMu.Lock()
	t := truthCache[key]
	fileCacheMu.Unlock()
	if t != nil {
		return t
	}
	var src io.Reader = bytes.NewReader(f.bytes)
	if !seekable {
		src = plainReader{src}
	}
	t = runReader(kind, src, 0)
	fileCacheMu.Lock()
	truthCache[key] = t
	fileCacheMu.Unlock()
	return t
}

// tokPrefix checks that got is a prefix of want (token by token); the last got token may be an
// attachment exposing fewer data bytes than the true one. Returns "" or a description.
func tokPrefix(got, want []gow.Tok) string {
	if len(got) > len(want) {
		return fmt.Sprintf("returned %d tokens, the intact file has %d", len(got), len(want))
	}
	for i := range got {
		g, w := got[i], want[i]
		if g.Type != w.Type {
			return fmt.Sprintf("token %d is %v, intact file has %v", i, g.Type, w.Type)
		}
		if g.Type == gow.TokAttachment {
			if g.Att.LogTime != w.Att.LogTime || g.Att.CreateTime != w.Att.CreateTime || g.Att.Name != w.Att.Name || g.Att.MediaType != w.Att.MediaType {
				return fmt.Sprintf("attachment token %d has different fields", i)
			}
			if g.Declared != w.Declared {
				return fmt.Sprintf("attachment token %d declares %d data bytes, the intact file's declares %d", i, g.Declared, w.Declared)
			}
			if !bytes.HasPrefix(w.Att.Data, g.Att.Data) {
				return fmt.Sprintf("attachment token %d exposes different data bytes", i)
			}
			if len(g.Att.Data) != len(w.Att.Data) && i != len(got)-1 {
				return fmt.Sprintf("attachment token %d is short but not the last token", i)
			}
			continue
		}
		if !bytes.Equal(g.Body, w.Body) {
			return fmt.Sprintf("token %d (%v) differs from the intact file's", i, g.Type)
		}
	}
	return ""
}

func countMsgToks(t []gow.Tok) int {
	n := 0
	for _, x := range t {
		if x.Type == mcap.TokenMessage {
			n++
		}
	}
	return n
}

// msgsInCompleteChunks counts the messages of all chunks whose record ends at or before cut.
func msgsInCompleteChunks(f *ref.File, cut int) int {
	n := 0
	for i := range f.Recs {
		r := &f.Recs[i]
		if r.Op == ref.OpChunk && r.End() <= cut {
			for k := range r.Inner {
				if r.Inner[k].Op == ref.OpMessage {
					n++
				}
			}
		}
	}
	return n
}

func triplePrefix(got, want []gow.Triple) string {
	if len(got) > len(want) {
		return fmt.Sprintf("returned %d messages, the intact file has %d", len(got), len(want))
	}
	for i := range got {
		if !equalTriple(got[i], want[i]) {
			return fmt.Sprintf("message %d is %s, intact file has %s", i, showTriple(got[i]), showTriple(want[i]))
		}
	}
	return ""
}

// lexWatched runs a lexer read under a watchdog: a read that neither returns nor fails within the
// limit is reported as a hang (the goroutine is abandoned).
func lexWatched(r io.Reader, lo gow.LexOpts, limit time.Duration) (*gow.LexResult, bool) {
	ch := make(chan *gow.LexResult, 1)
	go func() { ch <- gow.Lex(r, lo) }()
	select {
	case res := <-ch:
		return res, true
	case <-time.After(limit):
		return nil, false
	}
}

type plainReader struct{ r io.Reader }

func (p plainReader) Read(b []byte) (int, error) { return p.r.Read(b) }

// ---------------------------------------------------------------- C09

func c09Body(nWork int) explore.Body { return c09BodyFrom(rfWorkloads(), nWork, nil) }

// c09BigWorkloads hold records larger than every fixed threshold of the lexer (64 KiB, the caller's
// buffer, the chunk size): a 100 KiB message, a 70 KiB attachment, a 66 KiB schema.
func c09BigWorkloads() []*model.Content {
	bigS := *model.S1
	bigS.ID = 3
	bigS.Data = bytes.Repeat([]byte("schema text "), 5600)
	bigC := *model.C1
	bigC.ID, bigC.SchemaID = 5, 3
	bigA := *model.A1
	bigA.Data = bytes.Repeat([]byte{1, 2, 3, 4, 5, 6, 7}, 10240)
	return []*model.Content{
		model.Fixed(model.Headers[0], model.Chn(model.C0), model.Msg(0, 1, 3, 0), model.Msg(0, 2, 100<<10, 0), model.Msg(0, 3, 5, 0), model.Att(&bigA), model.Msg(0, 4, 1, 0)),
		model.Fixed(model.Headers[0], model.Sch(&bigS), model.Chn(&bigC), model.Msg(5, 1, 70000, 0), model.Met(model.D1), model.Msg(5, 2, 0, 0)),
	}
}

// bigCuts: every position within 24 bytes of a record boundary (top level and inside uncompressed
// chunks) and every 4099th position in between.
func bigCuts(f *rfFile) []int {
	set := map[int]bool{}
	mark := func(p int) {
		for d := -24; d <= 24; d++ {
			if p+d >= 0 && p+d < len(f.bytes) {
				set[p+d] = true
			}
		}
	}
	for i := range f.dec.Recs {
		r := &f.dec.Recs[i]
		mark(r.Off)
		mark(r.End())
		if r.Chunk != nil && r.Chunk.Compression == "" {
			for j := range r.Inner {
				mark(r.Chunk.RecordsOff + r.Inner[j].Off)
			}
		}
	}
	for p := 0; p < len(f.bytes); p += 4099 {
		set[p] = true
	}
	out := make([]int, 0, len(set))
	for p := range set {
		out = append(out, p)
	}
	sort.Ints(out)
	return out
}

var cutCache = map[string][]int{}

func c09BodyFrom(ws []*model.Content, nWork int, cuts func(*rfFile) []int) explore.Body {
	return func(x *explore.Ctx) *explore.Verdict {
		f := chooseFileFrom(x, ws, nWork, rfModes, true)
		var k, cut int
		if cuts == nil {
			k = x.Choose("fault", len(f.bytes)+1) // 0 = intact, k = cut at k-1
			cut = len(f.bytes)
			if k > 0 {
				cut = k - 1
			}
		} else {
			fileCacheMu.Lock()
			cs := cutCache[f.key]
			if cs == nil {
				cs = cuts(f)
				cutCache[f.key] = cs
			}
			fileCacheMu.Unlock()
			k = x.Choose("fault", len(cs)+1)
			cut = len(f.bytes)
			if k > 0 {
				cut = cs[k-1]
			}
		}
		data := f.bytes[:cut]
		x.Note = func() any {
			return map[string]any{"config": f.cfg.String(), "calls": f.c.String(), "file_len": len(f.bytes), "cut": cut}
		}
		ctxs := fmt.Sprintf(" — cut %d/%d — %s — %s", cut, len(f.bytes), f.cfg, f.c)
		need := msgsInCompleteChunks(f.dec, cut)
		for vi, validate := range []bool{false, true, false} {
			for _, seekable := range []bool{true, false} {
				mk := func(b []byte) io.Reader {
					if seekable {
						return bytes.NewReader(b)
					}
					return plainReader{bytes.NewReader(b)}
				}
				lo := gow.LexOpts{Validate: validate, AttCRC: true, NoAttCallback: vi == 2}
				full := gow.Lex(mk(f.bytes), lo)
				lo.Limit = len(full.Toks) + 8
				got, finished := lexWatched(mk(data), lo, 20*time.Second)
				what := fmt.Sprintf("lexer(validate=%v,seekable=%v,attachment callback=%v)", validate, seekable, vi != 2)
				if !finished {
					v := vio("C09:lexer-hang", "%s neither returned end-of-file nor an error within 20 s%s", what, ctxs)
					v.Poison = true
					return v
				}
				if got.Panic != "" {
					return vio("C09:lexer-panic", "%s panicked: %s%s", what, got.Panic, ctxs)
				}
				if d := tokPrefix(got.Toks, full.Toks); d != "" {
					return vio("C09:lexer-not-a-prefix", "%s: %s%s", what, d, ctxs)
				}
				if got.Err == nil {
					return vio("C09:lexer-no-end", "%s: neither EOF nor an error%s", what, ctxs)
				}
				if n := countMsgToks(got.Toks); n < need {
					return vio("C09:lexer-lost-complete-chunk", "%s returned %d messages; %d lie in chunks completely written before the cut (ended with %v)%s", what, n, need, got.Err, ctxs)
				}
				if k == 0 && (!errors.Is(got.Err, io.EOF) || len(got.Toks) != len(full.Toks)) {
					return vio("C09:intact-file", "%s on the intact file: %v%s", what, got.Err, ctxs)
				}
			}
		}
		fullIt := gow.Iterate(bytes.NewReader(f.bytes), gow.NextIntoNil, false, nil, 0, mcap.UsingIndex(false))
		// a consumer that first asks for the index (which fails on a cut file) and then falls back to the
		// sequential scan on the same Reader gets what the direct scan gets
		if cut >= 8 {
			direct := gow.Iterate(bytes.NewReader(data), gow.NextIntoNil, false, nil, len(fullIt.Triples)+8, mcap.UsingIndex(false))
			if rd, err := mcap.NewReader(bytes.NewReader(data)); err == nil {
				_, _ = rd.Info()
				n, ended := 0, error(nil)
				func() {
					defer func() {
						if p := recover(); p != nil {
							ended = fmt.Errorf("panic: %s", gow.PanicSite(p))
						}
					}()
					it, err := rd.Messages(mcap.UsingIndex(false))
					if err != nil {
						ended = err
						return
					}
					for n <= len(fullIt.Triples)+8 {
						if _, _, _, err := it.NextInto(nil); err != nil {
							ended = err
							break
						}
						n++
					}
				}()
				rd.Close()
				if n != len(direct.Triples) {
					return vio("C09:scan-after-failed-Info", "after Info() on the same Reader the sequential scan returns %d messages (ended %v); without it %d%s", n, ended, len(direct.Triples), ctxs)
				}
			}
		}
		for _, seekable := range []bool{true, false} {
			var rd io.Reader = bytes.NewReader(data)
			if !seekable {
				rd = plainReader{rd}
			}
			it := gow.Iterate(rd, gow.NextIntoNil, false, nil, len(fullIt.Triples)+8, mcap.UsingIndex(false))
			what := fmt.Sprintf("unindexed iterator(seekable=%v)", seekable)
			if it.Panic != "" {
				return vio("C09:iter-panic", "%s panicked: %s%s", what, it.Panic, ctxs)
			}
			if d := triplePrefix(it.Triples, fullIt.Triples); d != "" {
				return vio("C09:iter-not-a-prefix", "%s: %s%s", what, d, ctxs)
			}
			if len(it.Triples) < need && it.OpenErr == nil {
				return vio("C09:iter-lost-complete-chunk", "%s returned %d messages; %d lie in chunks completely written before the cut (ended with %v)%s", what, len(it.Triples), need, it.Err, ctxs)
			}
		}
		x.State = explore.Hash(data)
		return nil
	}
}

// C09: a file cut short at any byte reads as a prefix of its records.
func C09(r *chk.Run) {
	r.Level = "fault_enumeration"
	n := 2
	if r.Thorough() {
		n = 3
	}
	r.Rule("crash points: every cut position 0..len-1 of every file of {workloads with several chunks, attachment and metadata between chunks} x {unchunked, none/64, zstd/64, lz4/64} x {CRC on, off}; plus files with records above every internal threshold (100 KiB message, 70 KiB attachment, 66 KiB schema) cut at every position within 24 bytes of a record boundary and at every 4099th byte; each prefix read through the lexer (validation on/off, with and without attachment callback, seekable and non-seekable source, 20 s watchdog) and the non-indexed iterator; distinct = distinct prefixes")
	r.Assume("the lower bound demanded is the one the property states: every message of every chunk whose record ends at or before the cut")
	r.Assume("the sink-side statement (the sink always holds a prefix of the final file) is checked after every individual Write by C14's fault-free and faulty runs")
	r.Phase("cuts", c09Body(n), chk.PhaseOpts{Bound: 1, SplitLen: 3})
	r.Phase("cuts-around-large-records", c09BodyFrom(c09BigWorkloads(), 2, bigCuts), chk.PhaseOpts{Bound: 1, SplitLen: 3, Share: 0.4})
	// larger family: generated workloads (depth <= 3, tiny alphabet)
	depth := 3
	if r.Thorough() {
		depth = 4
	}
	r.Phase(fmt.Sprintf("cuts-generated-depth<=%d", depth), func(x *explore.Ctx) *explore.Verdict {
		m := rfModes[x.Choose("cfg", len(rfModes))]
		if m.comp == "zstd" && !r.Thorough() {
			m.comp = "lz4"
		}
		cfg := gow.Config{CRC: x.Bool("cfg"), Chunked: m.chunked, ChunkSize: 16, Compression: m.comp}
		c := model.GenUpTo(x, model.Tiny(), depth)
		res := gow.Write(c, cfg, nil, nil)
		dec := ref.Decode(res.Bytes, true)
		k := x.Choose("fault", len(res.Bytes)+1)
		cut := len(res.Bytes)
		if k > 0 {
			cut = k - 1
		}
		ctxs := fmt.Sprintf(" — cut %d/%d — %s — %s", cut, len(res.Bytes), cfg, c)
		x.Note = func() any { return map[string]any{"config": cfg.String(), "calls": c.String(), "cut": cut} }
		need := msgsInCompleteChunks(dec, cut)
		lo := gow.LexOpts{Validate: true, AttCRC: true}
		full := gow.Lex(bytes.NewReader(res.Bytes), lo)
		lo.Limit = len(full.Toks) + 8
		got := gow.Lex(bytes.NewReader(res.Bytes[:cut]), lo)
		if got.Panic != "" {
			return vio("C09:lexer-panic", "lexer panicked: %s%s", got.Panic, ctxs)
		}
		if d := tokPrefix(got.Toks, full.Toks); d != "" {
			return vio("C09:lexer-not-a-prefix", "lexer(validate): %s%s", d, ctxs)
		}
		if n := countMsgToks(got.Toks); n < need {
			return vio("C09:lexer-lost-complete-chunk", "lexer(validate) returned %d messages; %d lie in complete chunks%s", n, need, ctxs)
		}
		x.State = explore.Hash(res.Bytes[:cut])
		return nil
	}, chk.PhaseOpts{Bound: 1})
}

// ---------------------------------------------------------------- C15

type readerKind int

const (
	rkLexer readerKind = iota
	rkLexerValidate
	rkUnindexed
	rkIndexedFile
	rkIndexedLog
	rkIndexedReverse
	rkInfo
	rkLexerNoCallback
	nReaderKinds
)

var readerKindNames = []string{"lexer", "lexer(validate)", "unindexed iterator", "indexed iterator(file order)", "indexed iterator(log time)", "indexed iterator(reverse)", "Info", "lexer(no attachment callback)"}

// readOutcome is what one reader delivered from one source.
type readOutcome struct {
	toks    []gow.Tok
	triples []gow.Triple
	meta    []ref.Metadata
	info    string
	err     error // terminal error (io.EOF = clean end); nil for Info success
	panic   string
}

func runReader(kind readerKind, src io.Reader, limit int) *readOutcome {
	o := &readOutcome{}
	switch kind {
	case rkLexer, rkLexerValidate, rkLexerNoCallback:
		lr, finished := lexWatched(src, gow.LexOpts{Validate: kind == rkLexerValidate, AttCRC: true, NoAttCallback: kind == rkLexerNoCallback, Limit: limit}, 20*time.Second)
		if !finished {
			o.panic = "hang: the lexer neither returned nor failed within 20 s"
			return o
		}
		o.toks, o.err, o.panic = lr.Toks, lr.Err, lr.Panic
	case rkUnindexed, rkIndexedFile, rkIndexedLog, rkIndexedReverse:
		opts := []mcap.ReadOpt{mcap.UsingIndex(kind != rkUnindexed)}
		switch kind {
		case rkIndexedLog:
			opts = append(opts, mcap.InOrder(mcap.LogTimeOrder))
		case rkIndexedReverse:
			opts = append(opts, mcap.InOrder(mcap.ReverseLogTimeOrder))
		}
		ir := gow.Iterate(src, gow.NextIntoNil, true, nil, limit, opts...)
		o.triples, o.meta, o.panic = ir.Triples, ir.Meta, ir.Panic
		o.err = ir.Err
		if ir.OpenErr != nil {
			o.err = ir.OpenErr
		} else if ir.MsgErr != nil {
			o.err = ir.MsgErr
		}
	case rkInfo:
		func() {
			defer func() {
				if p := recover(); p != nil {
					o.panic = gow.PanicSite(p)
				}
			}()
			rd, err := mcap.NewReader(src)
			if err != nil {
				o.err = err
				return
			}
			defer rd.Close()
			info, err := rd.Info()
			if err != nil {
				o.err = err
				return
			}
			o.info = fmt.Sprintf("%+v ch=%d sch=%d ci=%d ai=%d mi=%d", info.Statistics, len(info.Channels), len(info.Schemas), len(info.ChunkIndexes), len(info.AttachmentIndexes), len(info.MetadataIndexes))
			o.err = io.EOF
		}()
	}
	return o
}

func (o *readOutcome) equal(t *readOutcome) bool {
	if len(o.toks) != len(t.toks) || len(o.triples) != len(t.triples) || o.info != t.info || len(o.meta) != len(t.meta) {
		return false
	}
	for i := range o.meta {
		if !gow.EqualMetadata(&o.meta[i], &t.meta[i]) {
			return false
		}
	}
	return tokPrefix(o.toks, t.toks) == "" && triplePrefix(o.triples, t.triples) == "" && (len(o.toks) == 0 || len(o.toks[len(o.toks)-1].Body) == len(t.toks[len(t.toks)-1].Body) && (o.toks[len(o.toks)-1].Att == nil || len(o.toks[len(o.toks)-1].Att.Data) == len(t.toks[len(t.toks)-1].Att.Data)))
}

func (o *readOutcome) prefixOf(t *readOutcome) string {
	if d := tokPrefix(o.toks, t.toks); d != "" {
		return d
	}
	return triplePrefix(o.triples, t.triples)
}

// c15Workloads: the read-fault workloads plus one whose chunks overlap and nest in log time (chunk
// ranges [10..50], [30..40], [20]): a time-ordered read loads later chunks by look-ahead while
// messages of earlier ones are still pending, so a source error can hit a look-ahead load.
func c15Workloads(nWork int) []*model.Content {
	ws := rfWorkloads()
	if nWork < len(ws) {
		ws = ws[:nWork]
	}
	// (three metadata records back to back, for readers that fetch them through the index)
	return append(ws, model.Fixed(model.Headers[0], model.Chn(model.C0), model.Msg(0, 10, 3, 0), model.Msg(0, 50, 3, 0), model.Met(model.D3), model.Met(model.D1), model.Met(model.D3), model.Msg(0, 30, 3, 0), model.Msg(0, 40, 3, 0), model.Msg(0, 20, 40, 0)))
}

func c15Body(nWork int, bound int) explore.Body {
	ws := c15Workloads(nWork)
	return func(x *explore.Ctx) *explore.Verdict {
		f := chooseFileFrom(x, ws, len(ws), rfModes, false)
		kind := readerKind(x.Choose("cfg", int(nReaderKinds)))
		seekable := kind >= rkIndexedFile
		if kind == rkUnindexed || kind == rkLexer || kind == rkLexerNoCallback {
			seekable = x.Bool("cfg")
		}
		if kind == rkLexerNoCallback {
			seekable = seekable && false // the skip path of interest is the non-seekable one
		}
		pol := env.Policy(x.Choose("cfg", int(env.NPolicies)))
		src := env.NewSource(x, f.bytes, pol)
		// injected error: none | at byte position p (0..len) | at the k-th Seek
		nSeekPts := 0
		if seekable {
			nSeekPts = 12
		}
		e := x.Choose("fault", 1+len(f.bytes)+1+nSeekPts)
		switch {
		case e == 0:
		case e <= len(f.bytes)+1:
			src.ErrPos = int64(e - 1)
			src.Sticky = x.Bool("faultmode")
		default:
			src.ErrSeek = e - (len(f.bytes) + 2)
			src.Sticky = x.Bool("faultmode")
		}
		x.Note = func() any {
			return map[string]any{"config": f.cfg.String(), "reader": readerKindNames[kind], "policy": env.PolicyNames[pol], "err_pos": src.ErrPos, "err_seek": src.ErrSeek, "sticky": src.Sticky, "seekable": seekable}
		}
		truth := truthOf(f, kind, seekable)
		var rd io.Reader = src
		if seekable {
			rd = env.Seeker{FaultSource: src}
		}
		got := runReader(kind, rd, len(truth.toks)+len(truth.triples)+8)
		ctxs := fmt.Sprintf(" — %s, policy %s, error at byte %d / seek %d (sticky %v, fired %d), seekable %v — %s — %s", readerKindNames[kind], env.PolicyNames[pol], src.ErrPos, src.ErrSeek, src.Sticky, src.Fired, seekable, f.cfg, f.c)
		x.State = explore.Hash([]byte(fmt.Sprint(kind, pol, src.ErrPos, src.ErrSeek, src.Sticky, len(got.toks), len(got.triples), got.err != nil)))
		if got.panic != "" {
			return vio("C15:panic", "panicked: %s%s", got.panic, ctxs)
		}
		if src.Fired == 0 {
			// no error reached the reader: results must be identical to the plain read
			if !got.equal(truth) || !sameEnd(got.err, truth.err) {
				d := got.prefixOf(truth)
				return vio("C15:delivery-dependent", "result depends on how bytes arrive: %d/%d tokens, %d/%d messages, end %v vs %v %s%s", len(got.toks), len(truth.toks), len(got.triples), len(truth.triples), got.err, truth.err, d, ctxs)
			}
			x.Outcome = "same"
			return nil
		}
		if d := got.prefixOf(truth); d != "" {
			return vio("C15:not-a-prefix", "after an injected source error the results are not a prefix of the truth: %s%s", d, ctxs)
		}
		complete := got.equal(truth)
		if complete {
			if got.err == nil || errors.Is(got.err, io.EOF) {
				return vio("C15:error-swallowed", "source returned an I/O error to the reader (fired %d) but the read ended cleanly (%v) with complete results%s", src.Fired, got.err, ctxs)
			}
			x.Outcome = "error-reported-after-complete-results"
			return nil // complete, correct, and the error was reported
		}
		if got.err == nil || errors.Is(got.err, io.EOF) {
			return vio("C15:error-as-eof", "source returned an I/O error but the read ended cleanly (%v) with %d/%d tokens, %d/%d messages%s", got.err, len(got.toks), len(truth.toks), len(got.triples), len(truth.triples), ctxs)
		}
		x.Outcome = "error-reported"
		return nil
	}
}

func sameEnd(a, b error) bool {
	return errors.Is(a, io.EOF) == errors.Is(b, io.EOF) && (a == nil) == (b == nil)
}

// C15: reads don't depend on how bytes arrive; source errors are not EOF.
func C15(r *chk.Run) {
	r.Level = "fault_enumeration"
	n, bound := 1, 1
	if r.Thorough() {
		n, bound = 3, 1
	}
	r.Rule("files {workloads} x {unchunked, none, zstd, lz4}; 8 readers (lexer, validating lexer, lexer without attachment callback, non-indexed iterator, indexed iterator in 3 orders, Info); delivery policies full / 1-byte / halving / 7-byte / data+EOF / a short read (1 or n-1 bytes) at every k-th Read call; an injected non-EOF error at every byte position 0..len and at every k-th Seek, sticky and one-shot; deviation bound on (short read, error) combinations as reported per phase")
	r.Assume("an injected error counts once the source has actually returned it to the reader (Fired > 0): from then on the read must end with a non-EOF error, also when every record had already been delivered (an error swallowed behind complete results is a violation, sig error-swallowed); an error position the reader never asked for is no error")
	r.Phase("delivery-and-errors", c15Body(n, bound), chk.PhaseOpts{Bound: bound, SplitLen: 5})
	if r.Thorough() && r.TimeLeft() {
		r.Phase("delivery-and-errors-bound2", c15Body(1, 2), chk.PhaseOpts{Bound: 2, SplitLen: 5})
	}
}
