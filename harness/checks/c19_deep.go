package checks

// Family (d) of C19: deterministic deep and wide type graphs - every primitive type, chains of
// depth 1..5 and diamonds - enumerated exactly (mixed radix, no holes), each with every reference
// form the resolution rule admits, every array suffix per level and every decoration.

var c19Prims = []string{"bool", "int8", "uint8", "int16", "uint16", "int32", "uint32", "int64", "uint64", "float32", "float64", "string", "time", "duration", "char", "byte"}

// chain types live at indexes 5..9 of the universe: pkga/L1, pkgb/L2, pkgb/L3, pkga/L4, pkga/L5
func init() {
	c19Universe = append(c19Universe, gType{pkg: "pkga", name: "L1"}, gType{pkg: "pkgb", name: "L2"}, gType{pkg: "pkgb", name: "L3"}, gType{pkg: "pkga", name: "L4"}, gType{pkg: "pkga", name: "L5"})
}

var c19Leaves = []gField{{name: "leaf", prim: "int32"}, {name: "leaf", prim: "time", arr: 1}, {name: "leaf", prim: "string", arr: 2}}

// forms a type of package pkg may use to refer to universe type u
func refForms(pkg string, u int) []int {
	if c19Universe[u].pkg == pkg {
		return []int{0, 1}
	}
	return []int{0}
}

type deepSeg struct {
	kind  string // "prims", "chain", "diamond"
	depth int
	radix []int
}

func deepSegs() []deepSeg {
	segs := []deepSeg{{kind: "prims", radix: []int{nDeco, len(c19Prims), 3, 2}}} // deco, primitive, array suffix, second field or not
	chain := []int{0, 5, 6, 7, 8, 9}
	for d := 1; d <= 5; d++ {
		r := []int{nDeco, len(c19Leaves), 2} // deco, leaf, sibling before/after
		for l := 0; l < d; l++ {
			r = append(r, len(refForms(c19Universe[chain[l]].pkg, chain[l+1])), 3)
		}
		segs = append(segs, deepSeg{kind: "chain", depth: d, radix: r})
	}
	// diamond: Top -> L1 -> L5 and Top -> L4 -> L5 (all pkga: both reference forms everywhere)
	segs = append(segs, deepSeg{kind: "diamond", radix: []int{nDeco, len(c19Leaves), 2, 3, 2, 3, 2, 3, 2, 3}})
	// homonyms: pkga/P and pkgb/P (different bodies) both in one definition, each reachable by its
	// unqualified name from inside its own package: deco, order of Top's fields, (form, arr) of
	// Top->pkga/P, arr of Top->pkgb/Q, (form, arr) of pkgb/Q->pkgb/P
	segs = append(segs, deepSeg{kind: "homonyms", radix: []int{nDeco, 2, 2, 3, 3, 2, 3}})
	return segs
}

func (s deepSeg) size() uint64 {
	n := uint64(1)
	for _, r := range s.radix {
		n *= uint64(r)
	}
	return n
}

func deepSpace() uint64 {
	n := uint64(0)
	for _, s := range deepSegs() {
		n += s.size()
	}
	return n
}

func genDeep(i uint64) (types []gType, deco int, ok bool) {
	for _, s := range deepSegs() {
		if i >= s.size() {
			i -= s.size()
			continue
		}
		p := &picker{v: i}
		deco = p.pick(nDeco)
		top := c19Universe[0]
		switch s.kind {
		case "prims":
			f := gField{name: "f0", prim: c19Prims[p.pick(len(c19Prims))]}
			f.arr = p.pick(3)
			top.fields = []gField{f}
			if p.pick(2) == 1 {
				top.fields = append(top.fields, gField{name: "f1", prim: "float64"})
			}
			return []gType{top}, deco, true
		case "chain":
			chain := []int{0, 5, 6, 7, 8, 9}
			leaf := c19Leaves[p.pick(len(c19Leaves))]
			after := p.pick(2) == 1
			for l := 0; l <= s.depth; l++ {
				t := c19Universe[chain[l]]
				if l < s.depth {
					forms := refForms(t.pkg, chain[l+1])
					ref := gField{name: "next", ref: chain[l+1], form: forms[p.pick(len(forms))]}
					ref.arr = p.pick(3)
					sib := gField{name: "sib", prim: c19Prims[(l*3+1)%len(c19Prims)]}
					if after {
						t.fields = []gField{ref, sib}
					} else {
						t.fields = []gField{sib, ref}
					}
				} else {
					t.fields = []gField{leaf}
				}
				types = append(types, t)
			}
			return types, deco, true
		case "diamond":
			leaf := c19Leaves[p.pick(len(c19Leaves))]
			mk := func(name string, u int) gField {
				f := gField{name: name, ref: u, form: p.pick(2)}
				f.arr = p.pick(3)
				return f
			}
			l1, l4, l5 := c19Universe[5], c19Universe[8], c19Universe[9]
			top.fields = []gField{mk("left", 5), mk("right", 8)}
			l1.fields = []gField{mk("down", 9)}
			l4.fields = []gField{mk("down", 9), {name: "x", prim: "duration"}}
			l5.fields = []gField{leaf}
			// dependency definitions deliberately not in reference order
			return []gType{top, l5, l4, l1}, deco, true
		case "homonyms":
			swap := p.pick(2) == 1
			pa, pb, q := c19Universe[1], c19Universe[2], c19Universe[3] // pkga/P, pkgb/P, pkgb/Q
			fa := gField{name: "mine", ref: 1, form: p.pick(2)}
			fa.arr = p.pick(3)
			fq := gField{name: "other", ref: 3, form: 0}
			fq.arr = p.pick(3)
			fp := gField{name: "theirs", ref: 2, form: p.pick(2)}
			fp.arr = p.pick(3)
			top.fields = []gField{fa, fq}
			if swap {
				top.fields = []gField{fq, fa}
			}
			q.fields = []gField{fp}
			pa.fields = []gField{{name: "x", prim: "int32"}}
			pb.fields = []gField{{name: "y", prim: "string"}, {name: "z", prim: "float64", arr: 1}}
			return []gType{top, pa, q, pb}, deco, true
		}
	}
	return nil, 0, false
}
