package checks

import (
	"bytes"
	"crypto/sha256"
	"encoding/hex"
	"fmt"
	"io"
	"os"
	"os/exec"
	"path/filepath"
	"runtime"
	"strings"


	mcap "github.com/foxglove/mcap/go/mcap"

	"verif/harness/c13child"
	"verif/harness/chk"
	"verif/harness/explore"
	"verif/harness/gow"
	"verif/harness/model"
	"verif/harness/ref"
)

// c13MapOrderFn is set by c13_map.go, which is only compiled into the map-order binary.
var c13MapOrderFn func(r *chk.Run)

// ---------------------------------------------------------------- (b) instance interleaving under a cooperative scheduler

type coSched struct {
	x       *explore.Ctx
	resume  []chan struct{}
	events  chan coEvent
	current int // instance being run (valid while an instance goroutine executes)
	hook    func(*coSched) // called once the scheduler is set up, before the first instance runs
}

type coEvent struct {
	id   int
	done bool
}

// yieldCurrent yields on behalf of whichever instance is running (used by hooks inside the library,
// which do not know the instance they run for).
func (s *coSched) yieldCurrent() {
	if s.current >= 0 {
		s.yield(s.current)
	}
}

func (s *coSched) yield(id int) {
	s.events <- coEvent{id, false}
	<-s.resume[id]
}

// run executes the instance bodies to completion; every scheduling decision is a choice point.
func (s *coSched) run(bodies []func(yield func())) {
	n := len(bodies)
	s.resume = make([]chan struct{}, n)
	s.events = make(chan coEvent)
	enabled := map[int]bool{}
	for i := range bodies {
		s.resume[i] = make(chan struct{})
		enabled[i] = true
		go func(i int) {
			<-s.resume[i]
			bodies[i](func() { s.yield(i) })
			s.events <- coEvent{i, true}
		}(i)
	}
	running := -1
	s.current = -1
	if s.hook != nil {
		s.hook(s)
	}
	for len(enabled) > 0 {
		var order []int
		kind := "schedfree" // the running instance is not enabled: switching costs nothing
		if running >= 0 && enabled[running] {
			order = append(order, running)
			kind = "sched" // choosing another instance than the running one is a preemption
		}
		for i := 0; i < n; i++ {
			if enabled[i] && i != running {
				order = append(order, i)
			}
		}
		next := order[s.x.Choose(kind, len(order))]
		running = next
		s.current = next
		s.resume[next] <- struct{}{}
		ev := <-s.events
		if ev.done {
			delete(enabled, ev.id)
		}
	}
}

type yieldSink struct {
	buf   bytes.Buffer
	yield func()
}

func (y *yieldSink) Write(p []byte) (int, error) {
	y.yield()
	return y.buf.Write(p)
}

type yieldSource struct {
	r     io.Reader
	yield func()
}

func (y *yieldSource) Read(p []byte) (int, error) {
	y.yield()
	return y.r.Read(p)
}

// writerInstance drives a writer through ops with a yield before every API call and sink write.
func writerInstance(c *model.Content, cfg gow.Config, out *[]byte) func(yield func()) {
	return writerInstanceOpts(c, cfg.Options(), out)
}

// writerInstanceOpts takes the options value itself, so that several instances can be built from
// one caller-owned *WriterOptions (which the library may read but must not turn into shared state).
func writerInstanceOpts(c *model.Content, opts *mcap.WriterOptions, out *[]byte) func(yield func()) {
	return func(yield func()) {
		sink := &yieldSink{yield: yield}
		w, err := mcap.NewWriter(sink, opts)
		if err != nil {
			return
		}
		yield()
		_ = w.WriteHeader(&mcap.Header{Profile: c.Header.Profile, Library: c.Header.Library})
		for _, o := range c.Ops {
			yield()
			switch o.Kind {
			case model.KSchema:
				_ = w.WriteSchema(gow.GoSchema(o.S))
			case model.KChannel:
				_ = w.WriteChannel(gow.GoChannel(o.C))
			case model.KMessage:
				_ = w.WriteMessage(gow.GoMessage(o.M))
			case model.KAttachment:
				_ = w.WriteAttachment(&mcap.Attachment{LogTime: o.A.LogTime, CreateTime: o.A.CreateTime, Name: o.A.Name, MediaType: o.A.MediaType, DataSize: uint64(len(o.A.Data)), Data: &yieldSource{bytes.NewReader(o.A.Data), yield}})
			case model.KMetadata:
				m := map[string]string{}
				for _, e := range o.D.Metadata {
					m[e.K] = e.V
				}
				_ = w.WriteMetadata(&mcap.Metadata{Name: o.D.Name, Metadata: m})
			}
		}
		yield()
		_ = w.Close()
		*out = sink.buf.Bytes()
	}
}

// readerInstance lexes a file with a yield before every source read and every Next.
func readerInstance(file []byte, out *string) func(yield func()) {
	return func(yield func()) {
		l, err := mcap.NewLexer(&yieldSource{bytes.NewReader(file), yield}, &mcap.LexerOptions{ValidateChunkCRCs: true})
		if err != nil {
			*out = "error: " + err.Error()
			return
		}
		h := sha256.New()
		for {
			yield()
			tt, body, err := l.Next(nil)
			if err != nil {
				fmt.Fprintf(h, "end %v", err)
				break
			}
			fmt.Fprintf(h, "%d:", tt)
			h.Write(body)
		}
		*out = hex.EncodeToString(h.Sum(nil))
	}
}

func c13Workloads() []*model.Content {
	h := model.Headers[1]
	return []*model.Content{
		// (every workload streams an attachment of its own - different sizes and bytes - through a plain
		// io.Reader, so that any copy buffer shared between instances is in use by two of them at once)
		model.Fixed(h, model.Sch(model.S1), model.Chn(model.C1), model.Msg(1, 5, 40, 0), model.Met(model.D3), model.Att(model.A2), model.Msg(1, 3, 70, 0)),
		model.Fixed(h, model.Chn(model.C0), model.Msg(0, 2, 3, 0), model.Att(model.A1), model.Msg(0, 1, 80, 0)),
		model.Fixed(model.Headers[0], model.Chn(model.C2Alt()), model.Msg(9, 7, 30, 0), model.Msg(9, 8, 30, 0), model.Met(model.D1)),
	}
}

// c13SchedHook, when set (map-order binary), is installed on every scheduler: it wires the
// library's shared-state yield points to the scheduler.
var c13SchedHook func(*coSched)
var c13SchedDone func()

// c13CollidingWorkloads are used where the library's own shared state is the subject: every pair of
// instances builds multi-key maps with different keys, writes attachments and messages of different
// sizes under different compressions, so that any buffer, pool or table shared between instances
// is in use by both at once.
func c13CollidingWorkloads() []*model.Content {
	kv := func(keys ...string) []ref.KV {
		var out []ref.KV
		for i, k := range keys {
			out = append(out, ref.KV{K: k, V: fmt.Sprint("v", i, k)})
		}
		return out
	}
	return []*model.Content{
		model.Fixed(model.Headers[1], model.Sch(model.S1), model.Chn(model.C1), model.Msg(1, 5, 40, 0), model.Met(model.D3), model.Att(model.A2), model.Msg(1, 3, 70, 0)),
		model.Fixed(model.Headers[0], model.Chn(&ref.Channel{ID: 9, Topic: "t9", MessageEncoding: "q", Metadata: kv("x", "a", "m", "zz")}), model.Msg(9, 7, 30, 0), model.Att(model.A1),
			model.Met(&ref.Metadata{Name: "other", Metadata: kv("q", "r", "s")}), model.Msg(9, 8, 3, 0)),
		model.Fixed(model.Headers[1], model.Sch(model.S2), model.Chn(&ref.Channel{ID: 4, SchemaID: model.S2.ID, Topic: "t4", Metadata: kv("k1", "k0")}), model.Msg(4, 1, 80, 0), model.Msg(4, 2, 0, 0),
			model.Met(&ref.Metadata{Name: "third", Metadata: kv("b", "a")})),
	}
}

func c13Interleave(nInst int) explore.Body { return c13InterleaveOn(nInst, c13Workloads()) }

func c13InterleaveOn(nInst int, ws []*model.Content) explore.Body {
	cfgs := []gow.Config{{CRC: true, Chunked: true, ChunkSize: 64}, {CRC: true, Chunked: true, ChunkSize: 32, Compression: "lz4"}, {CRC: false}, {CRC: true, Chunked: true, ChunkSize: 48, Compression: "zstd"}}
	solo := make([][]byte, len(ws))
	for i := range ws {
		solo[i] = gow.Write(ws[i], cfgs[i%len(cfgs)], nil, nil).Bytes
	}
	var soloRead string
	readerInstance(solo[1], &soloRead)(func() {})
	return func(x *explore.Ctx) *explore.Verdict {
		combo := x.Choose("cfg", 5) // which instances run together; 3 and 4: writers built from ONE options value (lz4, zstd)
		if combo >= 3 {
			cfg := cfgs[1]
			if combo == 4 {
				cfg = cfgs[3]
			}
			shared := cfg.Options()
			outs := make([][]byte, nInst)
			var bodies []func(yield func())
			var what []string
			for i := 0; i < nInst; i++ {
				bodies = append(bodies, writerInstanceOpts(ws[i%len(ws)], shared, &outs[i]))
				what = append(what, fmt.Sprintf("writer %d (%s, shared options value)", i%len(ws), cfg))
			}
			s := &coSched{x: x, hook: c13SchedHook}
			s.run(bodies)
			if c13SchedDone != nil {
				c13SchedDone()
			}
			x.Ops += 6 * nInst
			x.Note = func() any { return map[string]any{"instances": what, "schedule": x.Choices()} }
			x.State = explore.Hash([]byte(fmt.Sprint(x.Choices())))
			for i := 0; i < nInst; i++ {
				want := gow.Write(ws[i%len(ws)], cfg, nil, nil).Bytes
				if !bytes.Equal(outs[i], want) {
					return vio("C13:writer-disturbed-by-concurrent-instance", "output of %s differs from its solo run when interleaved with %v", what[i], what)
				}
			}
			return nil
		}
		outs := make([][]byte, nInst)
		var rd string
		var bodies []func(yield func())
		var what []string
		for i := 0; i < nInst; i++ {
			wi := (combo + i) % len(ws)
			if i == nInst-1 && combo == 2 {
				bodies = append(bodies, readerInstance(solo[1], &rd))
				what = append(what, "lexer over file 1")
				continue
			}
			bodies = append(bodies, writerInstance(ws[wi], cfgs[wi%len(cfgs)], &outs[i]))
			what = append(what, fmt.Sprintf("writer %d (%s)", wi, cfgs[wi%len(cfgs)]))
		}
		s := &coSched{x: x, hook: c13SchedHook}
		s.run(bodies)
		if c13SchedDone != nil {
			c13SchedDone()
		}
		x.Ops += 6 * nInst
		x.Note = func() any { return map[string]any{"instances": what, "schedule": x.Choices()} }
		x.State = explore.Hash([]byte(fmt.Sprint(x.Choices())))
		for i := 0; i < nInst; i++ {
			wi := (combo + i) % len(ws)
			if i == nInst-1 && combo == 2 {
				if rd != soloRead {
					return vio("C13:reader-disturbed-by-concurrent-instance", "lexer result differs from its solo run when interleaved with %v", what)
				}
				continue
			}
			if !bytes.Equal(outs[i], solo[wi]) {
				return vio("C13:writer-disturbed-by-concurrent-instance", "output of %s differs from its solo run when interleaved with %v", what[i], what)
			}
		}
		return nil
	}
}

// ---------------------------------------------------------------- (c)/(d) child modes

func goBuild(pkg string, out string, extra ...string) error {
	args := append([]string{"build"}, extra...)
	args = append(args, "-o", out, pkg)
	cmd := exec.Command("go", args...)
	cmd.Dir = "/verif/harness"
	cmd.Env = append(os.Environ(), "GOFLAGS=-mod=mod", "GOPROXY=off", "GOSUMDB=off", "GOTOOLCHAIN=local", "GOWORK=off", "CGO_ENABLED=1")
	if mf := os.Getenv("VERIF_MODFILE"); mf != "" {
		cmd.Args = append(cmd.Args[:2], append([]string{"-modfile=" + mf}, cmd.Args[2:]...)...)
	}
	if b, err := cmd.CombinedOutput(); err != nil {
		return fmt.Errorf("go %s: %v\n%s", strings.Join(args, " "), err, b)
	}
	return nil
}

// ---------------------------------------------------------------- (e) writer histories in one process, argument reuse

var c13HistCfgs = []gow.Config{
	{CRC: true, Chunked: true, ChunkSize: 4096, Compression: "zstd", Level: 0},
	{CRC: true, Chunked: true, ChunkSize: 4096, Compression: "zstd", Level: 2},
	{CRC: true, Chunked: true, ChunkSize: 4096, Compression: "zstd", Level: 3},
	{CRC: true, Chunked: true, ChunkSize: 4096, Compression: "zstd", Level: 1},
	{CRC: true, Chunked: true, ChunkSize: 4096, Compression: "lz4", Level: 0},
	{CRC: true, Chunked: true, ChunkSize: 4096, Compression: "lz4", Level: 3},
	{CRC: true, Chunked: true, ChunkSize: 4096, Compression: "lz4", Level: 1},
	{CRC: true, Chunked: true, ChunkSize: 4096, Compression: ""},
}

func c13HistContent() *model.Content {
	var ops []model.Op
	ops = append(ops, model.Sch(model.S1), model.Chn(model.C1), model.Chn(model.C0))
	for i := 0; i < 120; i++ {
		ops = append(ops, model.Op{Kind: model.KMessage, M: &ref.Message{ChannelID: uint16(i % 2), Sequence: uint32(i), LogTime: uint64(i), PublishTime: uint64(i),
			Data: bytes.Repeat([]byte(fmt.Sprintf("payload %d compressible compressible compressible ", i%7)), 6)}})
	}
	return model.Fixed(ref.Header{Profile: "p", Library: "my-recorder/1.2"}, ops...)
}

func hashHex(b []byte) string { h := sha256.Sum256(b); return hex.EncodeToString(h[:8]) }

// c13HistRefs prints, from a fresh process, the digest of the content under each configuration.
func c13HistRefs() []string {
	c := c13HistContent()
	var out []string
	for _, cfg := range c13HistCfgs {
		out = append(out, hashHex(gow.Write(c, cfg, nil, nil).Bytes))
	}
	return out
}

// writeReusing drives a writer with caller-owned argument objects that are reused between writers.
type reusedArgs struct {
	header   *mcap.Header
	schemas  map[uint16]*mcap.Schema
	channels map[uint16]*mcap.Channel
}

func writeReusing(c *model.Content, cfg gow.Config, a *reusedArgs) []byte {
	var buf bytes.Buffer
	w, err := mcap.NewWriter(&buf, cfg.Options())
	if err != nil {
		return nil
	}
	if a.header == nil {
		a.header = &mcap.Header{Profile: c.Header.Profile, Library: c.Header.Library}
		a.schemas, a.channels = map[uint16]*mcap.Schema{}, map[uint16]*mcap.Channel{}
	}
	_ = w.WriteHeader(a.header)
	for _, o := range c.Ops {
		switch o.Kind {
		case model.KSchema:
			if a.schemas[o.S.ID] == nil {
				a.schemas[o.S.ID] = gow.GoSchema(o.S)
			}
			_ = w.WriteSchema(a.schemas[o.S.ID])
		case model.KChannel:
			if a.channels[o.C.ID] == nil {
				a.channels[o.C.ID] = gow.GoChannel(o.C)
			}
			_ = w.WriteChannel(a.channels[o.C.ID])
		case model.KMessage:
			_ = w.WriteMessage(gow.GoMessage(o.M))
		}
	}
	_ = w.Close()
	return buf.Bytes()
}

func c13HistoryBody(refs []string) explore.Body {
	c := c13HistContent()
	return func(x *explore.Ctx) *explore.Verdict {
		// start every history from the state of a fresh process: two collections empty every sync.Pool
		runtime.GC()
		runtime.GC()
		n := 1 + x.Choose("op", 3)
		reuse := x.Bool("arg")
		args := &reusedArgs{}
		var hist []string
		var verdict *explore.Verdict
		for i := 0; i < n; i++ {
			k := x.Choose("op", len(c13HistCfgs))
			cfg := c13HistCfgs[k]
			hist = append(hist, fmt.Sprintf("%s/L%d", cfg.Compression, cfg.Level))
			var got []byte
			if reuse {
				got = writeReusing(c, cfg, args)
			} else {
				got = gow.Write(c, cfg, nil, nil).Bytes
			}
			x.Ops++
			if hashHex(got) != refs[k] && verdict == nil {
				sig := "C13:output-depends-on-earlier-writers"
				if reuse && i > 0 {
					sig = "C13:output-depends-on-argument-reuse"
				}
				verdict = vio(sig, "writer #%d (%s) of the history %v (argument objects reused: %v) produced %s; the same calls in a fresh process give %s", i+1, hist[i], append([]string(nil), hist...), reuse, hashHex(got), refs[k])
			}
		}
		x.Note = func() any { return map[string]any{"writers_in_this_process": hist, "argument_objects_reused": reuse} }
		x.State = explore.Hash([]byte(fmt.Sprint(hist, reuse)))
		return verdict
	}
}

// C13: writer output is a deterministic function of options and calls.
func C13(r *chk.Run) {
	switch os.Getenv("VERIF_C13_CHILD") {
	case "histrefs":
		fmt.Println("REFS", strings.Join(c13HistRefs(), " "))
		os.Exit(0)
	case "digest":
		d, err := c13child.Digest(1, 0)
		if err != nil {
			fmt.Println("ERROR", err)
			os.Exit(1)
		}
		fmt.Println("DIGEST", d)
		os.Exit(0)
	case "race":
		rounds := 6
		if r.Thorough() {
			rounds = 40
		}
		if _, err := c13child.Digest(16, rounds); err != nil {
			fmt.Println("ERROR", err)
			os.Exit(1)
		}
		fmt.Println("RACE-PASS-OK")
		os.Exit(0)
	case "maporder":
		if c13MapOrderFn == nil {
			fmt.Fprintln(os.Stderr, "this binary was not built with the map-order overlay")
			os.Exit(2)
		}
		c13MapOrderFn(r)
		return
	}
	r.Rule("(a) map order: a binary built with an overlay that routes every map range of go/mcap (found with go/types, regenerated from the working tree) through a harness-controlled permutation; every permutation of every map range reached by workloads with 1-4 key maps, 2-4 and 70 channels (sparse chunks), deviation bound 2; output bytes must equal the identity-order run. (b) instance interleaving: 2 [3] instances (writers with different compressions, a validating lexer) under a cooperative scheduler with yield points before every API call and at every sink write / source read / attachment-source read; all interleavings with preemption bound 2 [3]; each instance's result must equal its solo run. (c) GOMAXPROCS in {1,2,4,16}: 45 configurations x 300 messages in a fresh subprocess each, digests equal. (d) supporting: 16 free-running goroutines with independent writers/readers under -race. (e) every history of up to 3 writers (zstd at 4 levels, lz4 at 3 levels, none) run one after another in ONE process, with and without reusing the caller's Header/Schema/Channel objects: each output must equal the digest the same calls give in a fresh process; distinct = distinct schedules / permutation vectors")
	r.Assume("trusted: the map-range rewrite preserves semantics for any one fixed order; (d) is a different technique (dynamic race detection) used as supporting evidence only, as the cooperative scheduler's hand-offs would blind the detector")
	if r.IsWorker() {
		// shard workers of phases (b) and (e)
		if refs := os.Getenv("VERIF_C13_REFS"); refs != "" {
			r.Phase("writer-histories-and-argument-reuse", c13HistoryBody(strings.Fields(refs)), chk.PhaseOpts{SplitLen: 2})
		}
		r.Phase("instance-interleavings-2", c13Interleave(2), chk.PhaseOpts{Bound: 2, SplitLen: 4})
		if r.Thorough() {
			r.Phase("instance-interleavings-3", c13Interleave(3), chk.PhaseOpts{Bound: 2, SplitLen: 4})
		}
		return
	}
	tmp, err := os.MkdirTemp("", "c13-")
	if err != nil {
		r.HarnessError(err.Error())
		return
	}
	defer os.RemoveAll(tmp)
	// (a) map order binary
	if r.Replay == nil {
		rw := filepath.Join(tmp, "maprewrite")
		cmd := exec.Command("go", "build", "-o", rw, "./cmd/maprewrite")
		cmd.Dir = "/verif/harness"
		cmd.Env = append(os.Environ(), "GOFLAGS=-mod=mod", "GOPROXY=off", "GOSUMDB=off", "GOTOOLCHAIN=local", "GOWORK=off")
		if b, err := cmd.CombinedOutput(); err != nil {
			r.HarnessError(fmt.Sprintf("building maprewrite: %v %s", err, b))
			return
		}
		ov := filepath.Join(tmp, "ov")
		_ = os.MkdirAll(ov, 0o755)
		out, err := exec.Command(rw, filepath.Join(chk.Repo(), "go/mcap"), ov).CombinedOutput()
		if err != nil {
			r.HarnessError(fmt.Sprintf("maprewrite: %v %s", err, out))
			return
		}
		r.Extra("map_range_sites", strings.Split(strings.TrimSpace(string(out)), "\n"))
		mapBin := filepath.Join(tmp, "mcx-map")
		if err := goBuild("./cmd/mcx", mapBin, "-tags", "verif verifmap", "-overlay", filepath.Join(ov, "overlay.json")); err != nil {
			r.HarnessError(err.Error())
			return
		}
		evp := filepath.Join(tmp, "map-evidence.json")
		sub := exec.Command(mapBin, "C13", r.Tier)
		sub.Env = append(os.Environ(), "VERIF_C13_CHILD=maporder", "VERIF_EVIDENCE_OUT="+evp)
		sub.Stdout = os.Stdout
		sub.Stderr = os.Stderr
		err = sub.Run()
		code := 0
		if ee, ok := err.(*exec.ExitError); ok {
			code = ee.ExitCode()
		} else if err != nil {
			code = 2
		}
		r.AddExternal(evp, code)
	}
	// (b) interleavings
	r.Phase("instance-interleavings-2", c13Interleave(2), chk.PhaseOpts{Bound: 2, SplitLen: 4, Share: 0.5})
	if r.Thorough() {
		r.Phase("instance-interleavings-3", c13Interleave(3), chk.PhaseOpts{Bound: 2, SplitLen: 4, Share: 0.6})
	}
	// (e) histories of writers in one process, with and without reuse of the caller's argument objects
	{
		cmd := exec.Command(os.Args[0], "C13", r.Tier)
		cmd.Env = append(os.Environ(), "VERIF_C13_CHILD=histrefs")
		out, err := cmd.Output()
		if err != nil || !strings.HasPrefix(string(out), "REFS ") {
			r.HarnessError(fmt.Sprintf("histrefs child: %v %s", err, out))
			return
		}
		refs := strings.TrimSpace(strings.TrimPrefix(string(out), "REFS "))
		os.Setenv("VERIF_C13_REFS", refs)
		r.Phase("writer-histories-and-argument-reuse", c13HistoryBody(strings.Fields(refs)), chk.PhaseOpts{SplitLen: 2})
	}
	if r.Replay != nil {
		return
	}
	// (c) GOMAXPROCS
	digests := map[string]string{}
	for _, p := range []string{"1", "2", "4", "16"} {
		cmd := exec.Command(os.Args[0], "C13", r.Tier)
		cmd.Env = append(os.Environ(), "VERIF_C13_CHILD=digest", "GOMAXPROCS="+p)
		out, err := cmd.Output()
		if err != nil || !strings.HasPrefix(string(out), "DIGEST ") {
			r.HarnessError(fmt.Sprintf("digest child GOMAXPROCS=%s: %v %s", p, err, out))
			return
		}
		digests[p] = strings.TrimSpace(strings.TrimPrefix(string(out), "DIGEST "))
	}
	same := true
	for _, d := range digests {
		same = same && d == digests["1"]
	}
	r.Count("gomaxprocs-1-2-4-16", 4*45, 4*45*300, 4, true, map[string]any{"digests": digests})
	if !same {
		r.Violation("gomaxprocs-1-2-4-16", "C13:output-depends-on-GOMAXPROCS", fmt.Sprintf("output digests differ across GOMAXPROCS: %v", digests), digests, 1)
	}
	// (d) free-running -race pass (supporting evidence)
	raceBin := filepath.Join(tmp, "mcx-race")
	if err := goBuild("./cmd/mcxrace", raceBin, "-race", "-tags", "verif"); err != nil {
		r.HarnessError(err.Error())
		return
	}
	cmd := exec.Command(raceBin, r.Tier)
	cmd.Env = append(os.Environ(), "VERIF_C13_CHILD=race", "GORACE=halt_on_error=1 exitcode=66", "GOMAXPROCS=16")
	out, err := cmd.CombinedOutput()
	switch {
	case err == nil && strings.Contains(string(out), "RACE-PASS-OK"):
		r.Count("free-running-race-pass(supporting)", 16, 16*6, 1, true, map[string]any{"goroutines": 16, "data_races": 0})
	case strings.Contains(string(out), "DATA RACE"):
		site := ""
		for _, l := range strings.Split(string(out), "\n") {
			if strings.Contains(l, "github.com/foxglove/mcap/go/mcap.") && site == "" {
				site = strings.TrimSpace(l)
				if k := strings.Index(site, "("); k > 0 {
					site = site[:k]
				}
			}
		}
		r.Count("free-running-race-pass(supporting)", 16, 16, 1, true, map[string]any{"goroutines": 16, "data_races": 1})
		r.Violation("free-running-race-pass(supporting)", "C13:data-race:"+site, "the race detector reports a data race between independent writer/reader instances: "+clipS(string(out)), map[string]any{"report": clipS(string(out))}, 1)
	case strings.Contains(string(out), "ERROR "):
		r.Count("free-running-race-pass(supporting)", 16, 16, 1, true, nil)
		r.Violation("free-running-race-pass(supporting)", "C13:concurrent-instances-interfere", "independent instances running on 16 goroutines interfere: "+clipS(string(out)), nil, 1)
	default:
		r.HarnessError(fmt.Sprintf("race child: %v %s", err, clipS(string(out))))
	}
}
