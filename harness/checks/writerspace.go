// Package checks holds one entry point per property.
package checks

import (
	"fmt"

	"verif/harness/chk"
	"verif/harness/explore"
	"verif/harness/gow"
	"verif/harness/model"
)

// writerOracle judges one (content, configuration, written file) execution.
type writerOracle func(x *explore.Ctx, c *model.Content, cfg gow.Config, res *gow.Result) *explore.Verdict

// spaceOpts scales the writer space to what an oracle costs.
type spaceOpts struct {
	flagBits     int // flag bits enumerated exhaustively in K1 (others stay 0)
	k1Full       int // depth of K1 x full alphabet
	k1Reduced    int // depth of K1 x reduced alphabet
	k1Extra      []k1Phase
	emphasisMask int // flag mask for the emphasis workloads (0 = flagBits)
	k2Depth      int // depth of K2 x tiny alphabet
	k3Depth      int // depth of K3 (K1 flags16 with zstd/lz4) x reduced alphabet, 0 = off
	chunkedOnly  bool
	skipMagicOff bool // never set SkipMagic (for readers that cannot skip it)
	fixed        []*model.Content
}

// k1Phase is an additional K1-style phase with its own flag mask, alphabet and depth.
type k1Phase struct {
	name  string
	mask  int
	alpha model.Alphabet
	depth int
}

func note(c *model.Content, cfg gow.Config) func() any {
	return func() any { return map[string]string{"config": cfg.String(), "calls": c.String()} }
}

// writerSpace runs the shared enumeration of DESIGN §3 (sub-products K1, K2, K3 and the fixed
// emphasis workloads) with one oracle.
func writerSpace(r *chk.Run, so spaceOpts, oracle writerOracle) {
	full := model.Full(r.Thorough())
	reduced := model.Reduced()
	tiny := model.Tiny()
	run := func(c *model.Content, cfg gow.Config, x *explore.Ctx) *explore.Verdict {
		if so.skipMagicOff {
			cfg.Flags &^= gow.FSkipMagic
		}
		for _, o := range c.Ops {
			if o.Kind == model.KAttachment {
				// how the attachment data is supplied is an environment answer: every kind is enumerated
				cfg.AttKind = x.Choose("cfg", 3)
				break
			}
		}
		res := gow.Write(c, cfg, nil, nil)
		x.Note = note(c, cfg)
		x.State = explore.Hash(res.Bytes)
		return oracle(x, c, cfg, res)
	}
	k1m := func(a model.Alphabet, depth int, mask int) explore.Body {
		return func(x *explore.Ctx) *explore.Verdict {
			cfg := gow.ChooseK1(x, mask)
			if so.chunkedOnly && !cfg.Chunked {
				cfg.Chunked, cfg.ChunkSize = true, 200
			}
			c := model.GenUpTo(x, a, depth)
			return run(c, cfg, x)
		}
	}
	k1 := func(a model.Alphabet, depth int) explore.Body { return k1m(a, depth, so.flagBits) }
	r.Rule(fmt.Sprintf("writer space: every legal call sequence (header; schema/channel/message/attachment/metadata in any legal order; close) "+
		"over the alphabets of DESIGN §3, times sub-products of the writer configuration, each enumerated exhaustively through explore.Choose; "+
		"distinct = distinct output files (hash of sink bytes); K1 flag mask %010b", so.flagBits))
	levels := []int{0, 1}
	sizes := []int64{1, 64}
	if r.Thorough() {
		levels = []int{0, 1, 2, 3, 7}
		sizes = []int64{1, 64, 0, 1 << 40}
	}
	// the small, distinct phases first: the K phases below use up the budget on a loaded machine
	// records larger than the writer's internal thresholds (1 MiB default chunk size, buffer growth):
	// a 1.3 MiB message followed by more records, under a small set of configurations
	bigW := largeWorkloads()
	r.Phase("large-records-and-long-workloads", func(x *explore.Ctx) *explore.Verdict {
		c := bigW[x.Choose("op", len(bigW))]
		type m struct {
			chunked bool
			size    int64
			comp    string
			level   int
		}
		// the last two: zstd at the levels with 16 and 32 MiB windows over chunks of more than one 128 KiB block
		modes := []m{{false, 0, "", 0}, {true, 1, "", 0}, {true, 64, "", 0}, {true, 700, "", 0}, {true, 0, "", 0}, {true, 1 << 40, "", 0}, {true, 64, "zstd", 0}, {true, 0, "lz4", 0}}
		fi := x.Choose("cfg", 3)
		fl := []int{0, gow.FSkipMessageIndexing | gow.FSkipChunkIndex, 1<<gow.NFlags - 1 - gow.FSkipMagic}[fi]
		crc := x.Bool("cfg")
		if fi == 0 && crc {
			// (slow encoders: once per workload, not under every flag set)
			modes = append(modes, m{true, 0, "zstd", 2}, m{true, 1 << 21, "zstd", 3})
		}
		md := modes[x.Choose("cfg", len(modes))]
		cfg := gow.Config{Flags: fl, CRC: crc, Chunked: md.chunked, ChunkSize: md.size, Compression: md.comp, Level: md.level}
		x.Ops += len(c.Ops)
		return run(c, cfg, x)
	}, chk.PhaseOpts{Share: 0.3})
	// emphasis workloads (always included, not sampled) under every flag combination of the mask
	fixed := append(emphasis(), so.fixed...)
	r.Phase("emphasis-workloads", func(x *explore.Ctx) *explore.Verdict {
		c := fixed[x.Choose("op", len(fixed))]
		var cfg gow.Config
		if x.Bool("cfg") {
			cfg = gow.ChooseK2(x, levels, sizes)
		} else {
			m := so.emphasisMask
			if m == 0 {
				m = so.flagBits
			}
			cfg = gow.ChooseK1(x, m)
			if so.chunkedOnly && !cfg.Chunked {
				cfg.Chunked, cfg.ChunkSize = true, 200
			}
		}
		x.Ops += len(c.Ops)
		return run(c, cfg, x)
	}, chk.PhaseOpts{Share: 0.3})
	if so.k1Full > 0 {
		r.Phase(fmt.Sprintf("K1-full-depth<=%d", so.k1Full), k1(full, so.k1Full), chk.PhaseOpts{Share: 0.4})
	}
	if so.k1Reduced > 0 {
		r.Phase(fmt.Sprintf("K1-reduced-depth<=%d", so.k1Reduced), k1(reduced, so.k1Reduced), chk.PhaseOpts{Share: 0.5})
	}
	for _, ph := range so.k1Extra {
		r.Phase(fmt.Sprintf("K1-%s-mask%010b-depth<=%d", ph.name, ph.mask, ph.depth), k1m(ph.alpha, ph.depth, ph.mask), chk.PhaseOpts{Share: 0.5})
	}
	if so.k2Depth > 0 {
		r.Phase(fmt.Sprintf("K2-tiny-depth<=%d", so.k2Depth), func(x *explore.Ctx) *explore.Verdict {
			cfg := gow.ChooseK2(x, levels, sizes)
			c := model.GenUpTo(x, tiny, so.k2Depth)
			return run(c, cfg, x)
		}, chk.PhaseOpts{Share: 0.6})
	}
	if so.k3Depth > 0 {
		r.Phase(fmt.Sprintf("K3-reduced-depth<=%d", so.k3Depth), func(x *explore.Ctx) *explore.Verdict {
			cfg := gow.ChooseK1(x, so.flagBits)
			cfg.Chunked = true
			if cfg.ChunkSize == 0 {
				cfg.ChunkSize = 200
			}
			cfg.Compression = []string{"zstd", "lz4"}[x.Choose("cfg", 2)]
			c := model.GenUpTo(x, reduced, so.k3Depth)
			return run(c, cfg, x)
		}, chk.PhaseOpts{Share: 0.7})
	}
}

// largeWorkloads: messages bigger than 1 MiB (the default chunk size) with records before and after.
func largeWorkloads() []*model.Content {
	h := model.Headers[0]
	var many, inter []model.Op
	many = append(many, model.Chn(model.C0), model.Sch(model.S1), model.Chn(model.C1), model.Msg(1, 500, 3, 0))
	for i := 0; i < 100; i++ {
		many = append(many, model.Msg(0, uint64(1000-i), i%7, 0))
	}
	many = append(many, model.Msg(1, 2, 9, 0), model.Met(model.D1))
	inter = append(inter, model.Sch(model.S2), model.Chn(model.C2), model.Chn(model.C0), model.Sch(model.S1), model.Chn(model.C1))
	for i := 0; i < 240; i++ {
		inter = append(inter, model.Msg([]uint16{65535, 0, 1}[i%3], uint64(i*37%101), 10+i%23, 0))
		if i == 150 {
			inter = append(inter, model.Att(model.A2))
		}
	}
	return []*model.Content{
		// many records per chunk: >64 messages on one channel next to a later-registered channel; 3 channels interleaved
		model.Fixed(h, many...),
		model.Fixed(h, inter...),
		model.Fixed(h, model.Chn(model.C0), model.Msg(0, 1, 3, 0), model.Msg(0, 2, 1<<20+300000, 0), model.Msg(0, 3, 5, 0), model.Sch(model.S1), model.Chn(model.C1), model.Msg(1, 4, 70, 0), model.Met(model.D1)),
		model.Fixed(h, model.Sch(model.S1), model.Chn(model.C1), model.Msg(1, 9, 1<<20+1, 0), model.Att(model.A1), model.Msg(1, 8, 1<<20+2, 0), model.Msg(1, 7, 0, 0)),
	}
}

// emphasis returns the fixed workloads DESIGN names explicitly: t=0 messages, descending times
// across chunks, message-less chunks, channels without messages, re-written identical records,
// attachments and metadata between chunks, large strings.
func emphasis() []*model.Content {
	h := model.Headers[0]
	big := make([]byte, 70000)
	for i := range big {
		big[i] = byte('a' + i%26)
	}
	bigCh := *model.C0
	bigCh.ID = 7
	bigCh.Topic = string(big)
	bigSch := *model.S1
	bigSch.ID = 9
	bigSch.Name = string(big[:66000])
	bigSch.Data = big
	return []*model.Content{
		model.Fixed(h, model.Chn(model.C0), model.Msg(0, 5, 3, 0), model.Msg(0, 0, 3, 0), model.Msg(0, 7, 3, 0)),
		model.Fixed(h, model.Chn(model.C0), model.Msg(0, 5, 3, 0), model.Msg(0, 7, 3, 0), model.Sch(model.S1), model.Chn(model.C1)),
		model.Fixed(h, model.Sch(model.S1), model.Chn(model.C1), model.Chn(model.C0), model.Msg(1, 9, 70, 0), model.Att(model.A1), model.Msg(1, 3, 70, 0), model.Met(model.D3), model.Msg(0, 3, 0, 0), model.Att(model.A2)),
		model.Fixed(h, model.Sch(model.S1), model.Sch(model.S1), model.Chn(model.C1), model.Chn(model.C1), model.Msg(1, model.MaxT, 3, 0), model.Msg(1, model.MaxT-1, 3, 0)),
		model.Fixed(h, model.Sch(model.S2), model.Chn(model.C2), model.Chn(model.C0), model.Msg(65535, 1<<63, 300, 0), model.Msg(0, 1<<63, 0, 0), model.Msg(65535, 0, 70, 0)),
		model.Fixed(model.Headers[1], model.Chn(&bigCh), model.Sch(&bigSch), model.Msg(7, 2, 70000, 0), model.Msg(7, 1, 3, 0)),
		model.Fixed(h, model.Met(model.D0), model.Att(model.A0), model.Chn(model.C0), model.Msg(0, 4, 3, 0), model.Msg(0, 4, 3, 0), model.Msg(0, 4, 3, 0), model.Met(model.D1), model.Msg(0, 2, 3, 0), model.Msg(0, 6, 3, 0)),
	}
}
