//go:build verifmap

package checks

import (
	"bytes"
	"fmt"

	mcap "github.com/foxglove/mcap/go/mcap"

	"verif/harness/chk"
	"verif/harness/explore"
	"verif/harness/gow"
	"verif/harness/model"
	"verif/harness/ref"
)

// This file is compiled only into the map-order binary, which is built with an overlay in which
// every map range of go/mcap goes through verifMapKeys (see cmd/maprewrite).

func perms(n int) [][]int {
	if n <= 1 {
		return [][]int{nil}
	}
	var out [][]int
	var rec func(cur []int, used []bool)
	rec = func(cur []int, used []bool) {
		if len(cur) == n {
			out = append(out, append([]int(nil), cur...))
			return
		}
		for i := 0; i < n; i++ {
			if !used[i] {
				used[i] = true
				rec(append(cur, i), used)
				used[i] = false
			}
		}
	}
	rec(nil, make([]bool, n))
	if n > 4 {
		// identity, reverse and all rotations
		out = out[:0]
		for r := 0; r < n; r++ {
			p := make([]int, n)
			for i := range p {
				p[i] = (i + r) % n
			}
			out = append(out, p)
		}
		rev := make([]int, n)
		for i := range rev {
			rev[i] = n - 1 - i
		}
		out = append(out, rev)
	}
	return out
}

func kvN(n int) []ref.KV {
	keys := []string{"b", "", "é", "a", "zz", "k5", "k6"}
	var out []ref.KV
	for i := 0; i < n; i++ {
		out = append(out, ref.KV{K: keys[i], V: fmt.Sprint("v", i)})
	}
	return out
}

func c13MapWorkloads() []*model.Content {
	h := model.Headers[1]
	var many []model.Op
	for i := 0; i < 70; i++ { // enough channels for any "sparse chunk" shortcut: 2-3 active out of 70
		many = append(many, model.Chn(&ref.Channel{ID: uint16(i), Topic: fmt.Sprint("t", i), Metadata: kvN(i % 3)}))
	}
	// sparse chunks: only 2 of 20 channels have messages in a chunk
	many = append(many, model.Msg(3, 5, 3, 0), model.Msg(17, 4, 3, 0), model.Msg(3, 9, 70, 0), model.Msg(11, 1, 3, 0))
	return []*model.Content{
		model.Fixed(h, model.Sch(model.S1), model.Chn(&ref.Channel{ID: 1, SchemaID: 1, Topic: "a", Metadata: kvN(3)}), model.Chn(&ref.Channel{ID: 2, Topic: "b", Metadata: kvN(2)}),
			model.Msg(2, 5, 3, 0), model.Msg(1, 4, 3, 0), model.Met(&ref.Metadata{Name: "m", Metadata: kvN(4)}), model.Msg(1, 9, 70, 0), model.Msg(2, 1, 3, 0)),
		model.Fixed(h, model.Chn(&ref.Channel{ID: 4, Topic: "a", Metadata: kvN(1)}), model.Chn(&ref.Channel{ID: 3, Topic: "b"}), model.Chn(&ref.Channel{ID: 2, Topic: "c"}), model.Chn(&ref.Channel{ID: 1, Topic: "d"}),
			model.Msg(1, 1, 3, 0), model.Msg(2, 1, 3, 0), model.Msg(3, 1, 3, 0), model.Msg(4, 1, 3, 0), model.Met(&ref.Metadata{Name: "m", Metadata: kvN(3)})),
		model.Fixed(h, many...),
		// keys that a sloppy comparator would tie: equal ignoring case, ignoring trailing blanks, prefixes of one another
		model.Fixed(h, model.Chn(&ref.Channel{ID: 1, Topic: "a", Metadata: []ref.KV{{K: "a", V: "1"}, {K: "A", V: "2"}, {K: "a ", V: "3"}, {K: "ab", V: "4"}}}), model.Msg(1, 1, 3, 0),
			model.Met(&ref.Metadata{Name: "m", Metadata: []ref.KV{{K: "key", V: "x"}, {K: "KEY", V: "y"}, {K: "Key", V: "z"}}})),
	}
}

func c13MapOrder(r *chk.Run) {
	ws := c13MapWorkloads()
	cfgs := []gow.Config{{CRC: true}, {CRC: true, Chunked: true, ChunkSize: 1}, {CRC: true, Chunked: true, ChunkSize: 64}, {CRC: true, Chunked: true, ChunkSize: 1 << 20, Flags: gow.FSkipMessageIndexing}}
	reference := map[string][]byte{}
	body := func(x *explore.Ctx) *explore.Verdict {
		wi := x.Choose("op", len(ws))
		ci := x.Choose("cfg", len(cfgs))
		key := fmt.Sprint(wi, "/", ci)
		var sites []string
		mcap.VerifMapOrder = func(site string, n int) []int {
			if n <= 1 {
				return nil
			}
			ps := perms(n)
			k := x.Choose("maporder", len(ps))
			if k > 0 {
				sites = append(sites, fmt.Sprintf("%s:%v", site, ps[k]))
			}
			return ps[k]
		}
		res := gow.Write(ws[wi], cfgs[ci], nil, nil)
		if wi == 2 && res.Bytes != nil {
			// the 70-channel workload is additionally copied chunk by chunk through the raw-record
			// API by a tool that does not register the channels inside the chunks; the copy is what is compared
			if out, bad := passthroughOpt(res.Bytes, cfgs[ci], false); bad == "" {
				res.Bytes = append(res.Bytes, out...)
			}
		}
		mcap.VerifMapOrder = nil
		x.Ops += len(ws[wi].Ops)
		x.State = explore.Hash(res.Bytes, []byte(fmt.Sprint(sites)))
		x.Note = func() any { return map[string]any{"workload": wi, "config": cfgs[ci].String(), "permuted_map_ranges": sites} }
		if len(sites) == 0 {
			reference[key] = res.Bytes
			return nil
		}
		want, ok := reference[key]
		if !ok {
			mcap.VerifMapOrder = nil
			want = gow.Write(ws[wi], cfgs[ci], nil, nil).Bytes
			if wi == 2 && want != nil {
				if out, bad := passthroughOpt(want, cfgs[ci], false); bad == "" {
					want = append(want, out...)
				}
			}
			reference[key] = want
		}
		if !bytes.Equal(res.Bytes, want) {
			return vio("C13:map-order-dependent-output", "writer output changes when map iteration order changes at %v — %s — workload %d", sites, cfgs[ci], wi)
		}
		return nil
	}
	bound := 2
	r.Phase("map-range-permutations", body, chk.PhaseOpts{Bound: bound, SplitLen: 3})
}

// c13SharedState explores instance interleavings with additional yield points inside the library:
// before every statement that touches package-level state some function modifies (inserted by
// cmd/maprewrite from the working tree). On a tree without such state there is nothing to explore.
func c13SharedState(r *chk.Run) {
	if mcap.VerifYieldSites == 0 {
		r.Count("interleavings-at-shared-state", 1, 0, 1, true, map[string]any{"shared_state_yield_sites": 0,
			"note": "go/mcap has no package-level state that any of its functions modifies (go/types scan of the working tree): instances cannot interfere through the library, nothing to interleave below API-call granularity"})
		return
	}
	hits := 0
	c13SchedHook = func(s *coSched) {
		mcap.VerifYield = func(string) {
			hits++
			s.yieldCurrent()
		}
	}
	c13SchedDone = func() { mcap.VerifYield = nil }
	r.Phase("interleavings-at-shared-state", c13InterleaveOn(2, c13CollidingWorkloads()), chk.PhaseOpts{Bound: 2, SplitLen: 4, Share: 0.3})
	c13SchedHook, c13SchedDone = nil, nil
}

func init() {
	c13MapOrderFn = func(r *chk.Run) {
		c13MapOrder(r)
		c13SharedState(r)
	}
}
