package checks

import (
	"bytes"
	"fmt"
	"reflect"

	mcap "github.com/foxglove/mcap/go/mcap"

	"verif/harness/chk"
	"verif/harness/explore"
	"verif/harness/gow"
	"verif/harness/model"
	"verif/harness/ref"
)

// The raw-record side of the writer API (what rewriting tools use): a file is re-emitted through a
// second writer that receives its chunks unopened - AddSchema/AddChannel for the records inside
// them, WriteChunkWithIndexes for the chunk and its message indexes, the exported Statistics
// counters for the messages it did not see - and everything else through the ordinary calls.

func passthrough(b []byte, cfg gow.Config) (out []byte, what string) { return passthroughOpt(b, cfg, true) }

// passthroughOpt with register=false copies chunks verbatim without telling the writer about the
// schemas and channels inside them (a tool that does not look into chunks).
func passthroughOpt(b []byte, cfg gow.Config, register bool) (out []byte, what string) {
	defer func() {
		if p := recover(); p != nil {
			out, what = nil, "panic: "+gow.PanicSite(p)
		}
	}()
	o := cfg.Options()
	o.Chunked = false // the second writer assembles no chunks of its own
	var buf bytes.Buffer
	w, err := mcap.NewWriter(&buf, o)
	if err != nil {
		return nil, "NewWriter: " + err.Error()
	}
	var pending *mcap.Chunk
	var idxs []*mcap.MessageIndex
	flush := func() error {
		if pending == nil {
			return nil
		}
		// what a rewriting tool does: look inside the chunk for the summary's sake, pass the bytes on as they are
		inner, err := ref.Decompress(pending.Compression, pending.Records, cfg.Codecs())
		if err != nil {
			return fmt.Errorf("decompress: %w", err)
		}
		for off := 0; register && off+9 <= len(inner); {
			op := inner[off]
			n := int(uint64(inner[off+1]) | uint64(inner[off+2])<<8 | uint64(inner[off+3])<<16 | uint64(inner[off+4])<<24)
			body := inner[off+9 : off+9+n]
			switch op {
			case ref.OpSchema:
				s, err := mcap.ParseSchema(body)
				if err != nil {
					return err
				}
				w.AddSchema(s)
			case ref.OpChannel:
				c, err := mcap.ParseChannel(body)
				if err != nil {
					return err
				}
				w.AddChannel(c)
			case ref.OpMessage:
				m, err := mcap.ParseMessage(body)
				if err != nil {
					return err
				}
				w.Statistics.MessageCount++
				w.Statistics.ChannelMessageCounts[m.ChannelID]++
			}
			off += 9 + n
		}
		err = w.WriteChunkWithIndexes(pending, idxs)
		pending, idxs = nil, nil
		return err
	}
	var ferr error
	lexer, err := mcap.NewLexer(bytes.NewReader(b), &mcap.LexerOptions{EmitChunks: true, SkipMagic: cfg.Has(gow.FSkipMagic), Decompressors: cfg.Decompressors(),
		AttachmentCallback: func(ar *mcap.AttachmentReader) error {
			if err := flush(); err != nil {
				return err
			}
			return w.WriteAttachment(&mcap.Attachment{LogTime: ar.LogTime, CreateTime: ar.CreateTime, Name: ar.Name, MediaType: ar.MediaType, DataSize: ar.DataSize, Data: ar.Data()})
		}})
	if err != nil {
		return nil, "NewLexer: " + err.Error()
	}
	defer lexer.Close()
loop:
	for {
		tt, body, err := lexer.Next(nil)
		if err != nil {
			ferr = err
			break
		}
		if tt != mcap.TokenMessageIndex {
			if err := flush(); err != nil {
				return nil, "WriteChunkWithIndexes: " + err.Error()
			}
		}
		switch tt {
		case mcap.TokenHeader:
			h, _ := mcap.ParseHeader(body)
			err = w.WriteHeader(h)
		case mcap.TokenSchema:
			s, _ := mcap.ParseSchema(body)
			err = w.WriteSchema(s)
		case mcap.TokenChannel:
			c, _ := mcap.ParseChannel(body)
			err = w.WriteChannel(c)
		case mcap.TokenMessage:
			m, _ := mcap.ParseMessage(body)
			err = w.WriteMessage(m)
		case mcap.TokenMetadata:
			m, _ := mcap.ParseMetadata(body)
			err = w.WriteMetadata(m)
		case mcap.TokenChunk:
			pending, err = mcap.ParseChunk(body)
		case mcap.TokenMessageIndex:
			var mi *mcap.MessageIndex
			if mi, err = mcap.ParseMessageIndex(body); err == nil {
				idxs = append(idxs, mi)
			}
		case mcap.TokenDataEnd:
			break loop
		}
		if err != nil {
			return nil, fmt.Sprintf("re-emitting %v: %v", tt, err)
		}
	}
	if ferr != nil {
		return nil, "lexing the source file: " + ferr.Error()
	}
	if err := flush(); err != nil {
		return nil, "WriteChunkWithIndexes: " + err.Error()
	}
	if err := w.Close(); err != nil {
		return nil, "Close: " + err.Error()
	}
	return buf.Bytes(), ""
}

// passthroughPhase: every tiny workload x chunk mode x a few flag sets is written, re-emitted through
// the raw-record API and (a) validated by the from-the-spec validator, (b) read back and compared
// with the source file, (c) its statistics compared with the call log.
func passthroughPhase(r *chk.Run, prop string, depth int) {
	flagSets := []int{0, gow.FSkipMessageIndexing, gow.FSkipStatistics | gow.FSkipSummaryOffsets, gow.FSkipRepeatedSchemas | gow.FSkipRepeatedChannelInfos, gow.FSkipChunkIndex | gow.FSkipAttachmentIndex | gow.FSkipMetadataIndex}
	fixed := append(rfWorkloads(), emphasis()[:5]...)
	r.Phase("chunk-passthrough-via-raw-record-API", func(x *explore.Ctx) *explore.Verdict {
		m := rfModes[x.Choose("cfg", len(rfModes))]
		cfg := gow.Config{Flags: flagSets[x.Choose("cfg", len(flagSets))], CRC: x.Bool("cfg"), Chunked: m.chunked, ChunkSize: m.size, Compression: m.comp}
		var c *model.Content
		if k := x.Choose("op", len(fixed)+1); k < len(fixed) {
			c = fixed[k]
			x.Ops += len(c.Ops)
		} else {
			c = model.GenUpTo(x, model.Tiny(), depth)
		}
		src := gow.Write(c, cfg, nil, nil)
		if _, err := src.FirstErr(); err != nil || src.Panic != "" {
			return nil
		}
		ctxs := " — " + cfg.String() + " — " + c.String()
		out, bad := passthrough(src.Bytes, cfg)
		x.State = explore.Hash(out)
		if bad != "" {
			return vio(prop+":passthrough-failed", "re-emitting a valid file through AddSchema/AddChannel/WriteChunkWithIndexes failed: %s%s", bad, ctxs)
		}
		f := ref.Decode(out, true, cfg.Codecs())
		for _, p := range ref.Validate(f, cfg.Expect()) {
			if p.Prop != prop && !(prop == "C05" && p.Prop == "C06") {
				continue
			}
			if p.Rule == "statistics-time-range" {
				continue // a passed-through chunk header cannot tell "no message" from "messages at time 0": not exact by design
			}
			return vio(prop+":passthrough:"+p.Rule, "file re-emitted through the raw-record API: %s%s", p.Msg, ctxs)
		}
		a, b2 := readBundle(src.Bytes), readBundle(out)
		if a.Err == "" && (b2.Err != "" || !reflect.DeepEqual(a.Scan, b2.Scan) || !reflect.DeepEqual(a.LexAtt, b2.LexAtt) || !reflect.DeepEqual(a.LexMeta, b2.LexMeta)) {
			return vio(prop+":passthrough-content", "file re-emitted through the raw-record API reads differently from its source (%s)%s", b2.Err, ctxs)
		}
		if prop == "C08" && !cfg.Has(gow.FSkipStatistics) {
			want := c.Stats()
			nChunks := uint32(0)
			for i := range f.Recs {
				if f.Recs[i].Op == ref.OpChunk {
					nChunks++
				}
			}
			for i := range f.Recs {
				if st := f.Recs[i].Statistics; st != nil {
					g := fromRefStats(st)
					w := flatStats{want.MessageCount, want.SchemaCount, want.ChannelCount, want.AttachmentCount, want.MetadataCount, nChunks, g.Start, g.End, want.PerChannel}
					if d := statsDiff(g, w); d != "" {
						return vio("C08:passthrough-stats:"+d, "statistics of the re-emitted file: %+v, call log: %+v%s", g, w, ctxs)
					}
				}
			}
		}
		return nil
	}, chk.PhaseOpts{SplitLen: 3, Share: 0.15})
}
