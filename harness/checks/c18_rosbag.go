package checks

import (
	"bytes"
	"errors"
	"fmt"
	"io"
	"sort"

	rosbag "github.com/foxglove/go-rosbag"
)

// memWS is an in-memory io.WriteSeeker (go-rosbag's writer patches the bag header on Close).
type memWS struct {
	b   []byte
	pos int
}

func (m *memWS) Write(p []byte) (int, error) {
	if need := m.pos + len(p); need > len(m.b) {
		m.b = append(m.b, make([]byte, need-len(m.b))...)
	}
	copy(m.b[m.pos:], p)
	m.pos += len(p)
	return len(p), nil
}
func (m *memWS) Seek(off int64, whence int) (int64, error) {
	switch whence {
	case io.SeekStart:
		m.pos = int(off)
	case io.SeekCurrent:
		m.pos += int(off)
	case io.SeekEnd:
		m.pos = len(m.b) + int(off)
	}
	if m.pos < 0 {
		return 0, errors.New("negative position")
	}
	return int64(m.pos), nil
}

type oneByteReader struct{ r io.Reader }

func (o oneByteReader) Read(p []byte) (int, error) {
	if len(p) == 0 {
		return 0, nil
	}
	return o.r.Read(p[:1])
}

// encodeBagIndependent writes the bag through go-rosbag's Writer - a second, independent bag
// encoder with its own chunking (by size), index records and connection placement (in the chunk
// at first use and again in the index section). Messages are written in specification order.
func encodeBagIndependent(s *bagSpec, chunksize int, compression string) ([]byte, []int, error) {
	ws := &memWS{}
	w, err := rosbag.NewWriter(ws, rosbag.WithChunksize(chunksize), rosbag.WithCompression(compression))
	if err != nil {
		return nil, nil, err
	}
	connByID := map[uint32]*bagConn{}
	for i := range s.conns {
		connByID[s.conns[i].id] = &s.conns[i]
	}
	written := map[uint32]bool{}
	var order []int
	for i := range s.msgs {
		m := &s.msgs[i]
		if !written[m.conn] {
			written[m.conn] = true
			c := connByID[m.conn]
			ch := rosbag.ConnectionHeader{Topic: c.topic, Type: c.typ, MD5Sum: c.md5, MessageDefinition: []byte(c.def)}
			if c.callerid != "" {
				id := c.callerid
				ch.CallerID = &id
			}
			if err := w.WriteConnection(&rosbag.Connection{Conn: c.id, Topic: c.topic, Data: ch}); err != nil {
				return nil, nil, err
			}
		}
		if err := w.WriteMessage(&rosbag.Message{Conn: m.conn, Time: uint64(m.secs)*1e9 + uint64(m.nsecs), Data: m.data}); err != nil {
			return nil, nil, err
		}
		order = append(order, i)
	}
	if err := w.Close(); err != nil {
		return nil, nil, err
	}
	return ws.b, order, nil
}

// crossCheckBag reads a bag the harness' own encoder produced with go-rosbag's reader (linear scan,
// and the index-based scan when the bag is chunked) and reports what differs from the
// specification the bag was generated from. A difference is an error of the harness (its encoder is
// the oracle's input), never a violation of the property.
func crossCheckBag(s *bagSpec, bag []byte, order []int) string {
	connByID := map[uint32]*bagConn{}
	for i := range s.conns {
		connByID[s.conns[i].id] = &s.conns[i]
	}
	type seen struct {
		conn uint32
		time uint64
		data string
	}
	want := make([]seen, 0, len(order))
	for _, mi := range order {
		m := &s.msgs[mi]
		want = append(want, seen{m.conn, uint64(m.secs)*1e9 + uint64(m.nsecs), string(m.data)})
	}
	read := func(linear bool) ([]seen, string) {
		// go-rosbag's linear iterator wraps its source in a bufio.Reader and drops whatever that
		// has read ahead when it enters a chunk; fed one byte per Read it never reads ahead.
		var src io.Reader = bytes.NewReader(bag)
		if linear {
			src = oneByteReader{bytes.NewReader(bag)}
		}
		rd, err := rosbag.NewReader(src)
		if err != nil {
			return nil, "go-rosbag NewReader: " + err.Error()
		}
		it, err := rd.Messages(rosbag.ScanLinear(linear))
		if err != nil {
			return nil, "go-rosbag Messages: " + err.Error()
		}
		var got []seen
		for it.More() {
			c, m, err := it.Next()
			if err != nil {
				if errors.Is(err, io.EOF) {
					break
				}
				return nil, "go-rosbag Next: " + err.Error()
			}
			bc := connByID[m.Conn]
			if bc == nil || c == nil || c.Conn != m.Conn || c.Topic != bc.topic || c.Data.Type != bc.typ || c.Data.MD5Sum != bc.md5 || string(c.Data.MessageDefinition) != bc.def {
				return nil, fmt.Sprintf("go-rosbag reports connection %+v for a message of connection %d", c, m.Conn)
			}
			got = append(got, seen{m.Conn, m.Time, string(m.Data)})
			if len(got) > len(want)+4 {
				return nil, "go-rosbag returns more messages than the bag holds"
			}
		}
		return got, ""
	}
	big := false
	for i := range s.msgs {
		big = big || len(s.msgs[i].data) > 64<<10
	}
	if big && s.partition != nil {
		// one Read call per byte of a megabyte-sized bag costs more than the conversion under test:
		// chunked bags with large messages are cross-checked through the index-based reader only
		goto indexed
	}
	{
		got, bad := read(true)
		if bad != "" {
			return "linear: " + bad
		}
		if len(got) != len(want) {
			return fmt.Sprintf("linear: go-rosbag reads %d messages, the bag was generated with %d", len(got), len(want))
		}
		for i := range got {
			if got[i] != want[i] {
				return fmt.Sprintf("linear: message %d differs (conn %d time %d %d bytes; generated conn %d time %d %d bytes)", i, got[i].conn, got[i].time, len(got[i].data), want[i].conn, want[i].time, len(want[i].data))
			}
		}
	}
indexed:
	if s.partition == nil {
		return "" // an unchunked bag has no index
	}
	got, bad := read(false)
	if bad != "" {
		return "indexed: " + bad
	}
	if len(got) != len(want) {
		return fmt.Sprintf("indexed: go-rosbag reads %d messages, the bag was generated with %d", len(got), len(want))
	}
	if !sort.SliceIsSorted(got, func(i, j int) bool { return got[i].time < got[j].time }) {
		return "indexed: go-rosbag's time-ordered read is not sorted (index records wrong?)"
	}
	key := func(v []seen) []string {
		out := make([]string, len(v))
		for i, e := range v {
			out[i] = fmt.Sprintf("%d/%d/%x", e.conn, e.time, e.data)
		}
		sort.Strings(out)
		return out
	}
	a, b := key(got), key(want)
	for i := range a {
		if a[i] != b[i] {
			return "indexed: go-rosbag's index-based read returns other messages than were generated"
		}
	}
	return ""
}
