package checks

import (
	"bytes"
	"fmt"
	"math"
	"sort"

	mcap "github.com/foxglove/mcap/go/mcap"

	"verif/harness/chk"
	"verif/harness/explore"
	"verif/harness/gow"
	"verif/harness/ref"
)

// ---------------------------------------------------------------- encoder-built chunk arrangements

type arrMsg struct {
	seq   uint32
	ch    uint16
	t     uint64
	chunk int
	pos   int // position inside its chunk
}

type arrangement struct {
	msgs    []arrMsg
	nChunks int
	bytes   []byte
	ranges  [][2]uint64 // per chunk [start,end] as stored (0,0 for message-less chunks)
	hasMsg  []bool
}

// channels of the arrangement files: 1:"a" (schema 1), 2:"b", 3:"a" (shares the topic of 1), 4:"c" (never has messages)
var arrSchema = &ref.Schema{ID: 1, Name: "s", Encoding: "e", Data: []byte{9}}
var arrChannels = []*ref.Channel{
	{ID: 1, SchemaID: 1, Topic: "a", MessageEncoding: "x"},
	{ID: 2, SchemaID: 0, Topic: "b", MessageEncoding: "x"},
	{ID: 3, SchemaID: 0, Topic: "a", MessageEncoding: "y"},
	{ID: 4, SchemaID: 0, Topic: "c", MessageEncoding: "x"},
}

func arrChannel(id uint16) *ref.Channel { return arrChannels[id-1] }

// buildArrangement encodes chunks (each a list of (channel,time)) into an indexed file.
func buildArrangement(chunks [][]arrMsg, compression string) *arrangement {
	return buildArrangementIdx(chunks, compression, true)
}

// buildArrangementIdx: msgIndex=false writes no message index records, so the chunk indexes list no
// message index offsets (what the Go writer emits under SkipMessageIndexing).
func buildArrangementIdx(chunks [][]arrMsg, compression string, msgIndex bool) *arrangement {
	a := &arrangement{nChunks: len(chunks)}
	var items []ref.Item
	sch := ref.RSchema(arrSchema)
	items = append(items, ref.Item{Rec: &sch})
	for _, c := range arrChannels {
		r := ref.RChannel(c)
		items = append(items, ref.Item{Rec: &r})
	}
	seq := uint32(0)
	for ci, ch := range chunks {
		spec := &ref.ChunkSpec{Compression: compression}
		var lo, hi uint64
		for pi, m := range ch {
			seq++
			m.seq, m.chunk, m.pos = seq, ci, pi
			a.msgs = append(a.msgs, m)
			spec.Recs = append(spec.Recs, ref.RMessage(&ref.Message{ChannelID: m.ch, Sequence: seq, LogTime: m.t, PublishTime: uint64(seq), Data: []byte{byte(seq), byte(ci)}}))
			if pi == 0 || m.t < lo {
				lo = m.t
			}
			if pi == 0 || m.t > hi {
				hi = m.t
			}
		}
		a.ranges = append(a.ranges, [2]uint64{lo, hi})
		a.hasMsg = append(a.hasMsg, len(ch) > 0)
		items = append(items, ref.Item{Chunk: spec})
	}
	lay := ref.Layout{MessageIndex: msgIndex, ChunkIndex: true, Statistics: true, RepeatSchemas: true, RepeatChannels: true, SummaryOffsets: true,
		ChunkCRC: true, DataCRC: true, SummaryCRC: true, GroupOrder: ref.GoGroupOrder}
	a.bytes = ref.EncodeFile(&ref.Header{Profile: "p", Library: "l"}, items, lay).Bytes
	return a
}

// overlapDepth is the largest number of chunk time ranges (of chunks selected by sel) sharing a point.
func (a *arrangement) overlapDepth(sel func(ci int) bool) int {
	best := 0
	for i := range a.ranges {
		if !sel(i) {
			continue
		}
		for _, p := range []uint64{a.ranges[i][0], a.ranges[i][1]} {
			n := 0
			for j := range a.ranges {
				if sel(j) && a.ranges[j][0] <= p && p <= a.ranges[j][1] {
					n++
				}
			}
			if n > best {
				best = n
			}
		}
	}
	return best
}

// genArrangement enumerates every arrangement of up to maxChunks chunks x up to maxMsgs messages
// with times from domain and channels from chans.
func genArrangement(x *explore.Ctx, minChunks, maxChunks, maxMsgs int, domain []uint64, chans []uint16) [][]arrMsg {
	n := minChunks + x.Choose("layout", maxChunks-minChunks+1)
	chunks := make([][]arrMsg, n)
	for ci := 0; ci < n; ci++ {
		k := x.Choose("layout", maxMsgs+1)
		for i := 0; i < k; i++ {
			t := domain[x.Choose("arg", len(domain))]
			ch := chans[0]
			if len(chans) > 1 {
				ch = chans[x.Choose("arg", len(chans))]
			}
			chunks[ci] = append(chunks[ci], arrMsg{ch: ch, t: t})
			x.Ops++
		}
	}
	return chunks
}

func showChunks(chunks [][]arrMsg) string {
	s := ""
	for _, c := range chunks {
		s += "["
		for i, m := range c {
			if i > 0 {
				s += " "
			}
			s += fmt.Sprintf("c%d@%d", m.ch, m.t)
		}
		s += "]"
	}
	return s
}

// orderOracle checks one ordered read against the C03 statement. sel is the selected multiset.
func orderOracle(prop string, a *arrangement, got []gow.Triple, sel []arrMsg, reverse bool, what string) *explore.Verdict {
	bySeq := map[uint32]arrMsg{}
	for _, m := range sel {
		bySeq[m.seq] = m
	}
	seen := map[uint32]int{}
	for _, g := range got {
		m, ok := bySeq[g.M.Sequence]
		if !ok {
			return vio(prop+":unselected-message", "%s returned message #%d (t=%d, channel %d) which is not selected", what, g.M.Sequence, g.M.LogTime, g.M.ChannelID)
		}
		if g.M.LogTime != m.t || g.M.ChannelID != m.ch || g.C == nil || g.C.ID != m.ch || g.C.Topic != arrChannel(m.ch).Topic || len(g.M.Data) != 2 || g.M.Data[0] != byte(m.seq) {
			return vio(prop+":wrong-content", "%s returned message #%d with wrong content or channel binding", what, g.M.Sequence)
		}
		seen[m.seq]++
	}
	for _, m := range sel {
		if seen[m.seq] != 1 {
			sig := prop + ":not-exactly-once"
			if seen[m.seq] == 0 && m.t == math.MaxUint64 {
				sig = prop + ":missing-logtime-max"
			}
			return vio(sig, "%s returned message #%d (chunk %d, t=%d) %d times", what, m.seq, m.chunk, m.t, seen[m.seq])
		}
	}
	for i := 1; i < len(got); i++ {
		p, c := bySeq[got[i-1].M.Sequence], bySeq[got[i].M.Sequence]
		if !reverse && c.t < p.t || reverse && c.t > p.t {
			return vio(prop+":not-sorted", "%s: message #%d (t=%d) comes after #%d (t=%d)", what, c.seq, c.t, p.seq, p.t)
		}
	}
	// equal-time messages of one chunk keep file order (reverse file order when reading in reverse)
	last := map[[2]uint64]int{} // (chunk,time) -> last position seen
	for _, g := range got {
		m := bySeq[g.M.Sequence]
		k := [2]uint64{uint64(m.chunk), m.t}
		if p, ok := last[k]; ok {
			if !reverse && m.pos < p || reverse && m.pos > p {
				return vio(prop+":tie-order", "%s: equal-time messages of chunk %d (t=%d) are not in %s file order", what, m.chunk, m.t, map[bool]string{false: "", true: "reverse "}[reverse])
			}
		}
		last[k] = m.pos
	}
	return nil
}

// c03Body runs both time orders twice on one arrangement; prop selects which oracle reports.
func c03Body(prop string, gen func(x *explore.Ctx) ([][]arrMsg, string)) explore.Body {
	return func(x *explore.Ctx) *explore.Verdict {
		chunks, comp := gen(x)
		x.Note = func() any { return map[string]any{"chunks": showChunks(chunks), "compression": comp} }
		if v := c03One(x, prop, buildArrangement(chunks, comp), " — chunks "+showChunks(chunks), true); v != nil {
			return v
		}
		if prop == "C03" {
			// the same arrangement without message index records (chunk indexes that list no message
			// index offsets, what the Go writer emits under SkipMessageIndexing)
			return c03One(x, prop, buildArrangementIdx(chunks, comp, false), " — file without message indexes — chunks "+showChunks(chunks), false)
		}
		return nil
	}
}

func c03One(x *explore.Ctx, prop string, a *arrangement, ctxs string, setState bool) *explore.Verdict {
	{
		if setState {
			x.State = explore.Hash(a.bytes)
		}
		depth := a.overlapDepth(func(int) bool { return true })
		if depth < 1 {
			depth = 1
		}
		for _, order := range []mcap.ReadOrder{mcap.FileOrder, mcap.LogTimeOrder, mcap.ReverseLogTimeOrder} {
			var first []gow.Triple
			for rep := 0; rep < 2; rep++ {
				maxSlots, maxLive := 0, 0
				hook := func(it mcap.MessageIterator, n int) {
					if st, ok := mcap.VerifSlots(it); ok {
						if st.Slots > maxSlots {
							maxSlots = st.Slots
						}
						if st.Live > maxLive {
							maxLive = st.Live
						}
					}
				}
				ir := gow.Iterate(bytes.NewReader(a.bytes), gow.NextIntoReused, false, hook, len(a.msgs)+4, mcap.UsingIndex(true), mcap.InOrder(order))
				what := fmt.Sprintf("order %d read %d", order, rep+1)
				x.Add("reads", 1)
				if prop == "C20" {
					bound := depth
					if order == mcap.FileOrder {
						bound = 1
					}
					if ir.Panic == "" && ir.Failed() == nil && maxSlots > bound {
						return vio("C20:slots-exceed-overlap-depth", "%s allocated %d chunk slots; at most %d chunk time ranges overlap%s", what, maxSlots, bound, ctxs)
					}
					continue
				}
				if ir.Panic != "" {
					return vio("C03:panic", "%s panicked: %s%s", what, ir.Panic, ctxs)
				}
				if err := ir.Failed(); err != nil {
					return vio("C03:error", "%s failed: %v%s", what, err, ctxs)
				}
				if order == mcap.FileOrder {
					if len(ir.Triples) != len(a.msgs) {
						sig := "C03:file-order-count"
						for _, m := range a.msgs {
							if m.t == math.MaxUint64 {
								sig = "C03:missing-logtime-max"
							}
						}
						return vio(sig, "%s returned %d of %d messages%s", what, len(ir.Triples), len(a.msgs), ctxs)
					}
					for i, g := range ir.Triples {
						if g.M.Sequence != a.msgs[i].seq {
							return vio("C03:file-order", "%s: position %d holds message #%d, file order has #%d%s", what, i, g.M.Sequence, a.msgs[i].seq, ctxs)
						}
					}
				} else if v := orderOracle("C03", a, ir.Triples, a.msgs, order == mcap.ReverseLogTimeOrder, what); v != nil {
					v.Msg += ctxs
					return v
				}
				if rep == 0 {
					first = ir.Triples
				} else {
					if len(first) != len(ir.Triples) {
						return vio("C03:not-repeatable", "%s differs from the first read%s", what, ctxs)
					}
					for i := range first {
						if first[i].M.Sequence != ir.Triples[i].M.Sequence {
							return vio("C03:not-repeatable", "%s differs from the first read at position %d%s", what, i, ctxs)
						}
					}
				}
			}
		}
		return nil
	}
}

var c03Domain = []uint64{0, 1, 2, math.MaxUint64 - 1}

// tiesGen enumerates the larger deterministic family: a chunk of L messages over two timestamps
// in every pattern, optionally preceded by an overlapping chunk, so that sorts of more than 12
// elements with heavy ties are exercised (Go's sort is insertion sort, hence stable, below 12).
func tiesGen(lengths []int) func(x *explore.Ctx) ([][]arrMsg, string) {
	return func(x *explore.Ctx) ([][]arrMsg, string) {
		L := lengths[x.Choose("layout", len(lengths))]
		var chunks [][]arrMsg
		if x.Bool("layout") {
			chunks = append(chunks, []arrMsg{{ch: 1, t: 1}, {ch: 1, t: 3}, {ch: 1, t: 2}})
		}
		var c []arrMsg
		for i := 0; i < L; i++ {
			c = append(c, arrMsg{ch: 1, t: uint64(1 + x.Choose("arg", 2))})
			x.Ops++
		}
		return append(chunks, c), ""
	}
}

// C03: time-ordered reads are exact sorts.
func C03(r *chk.Run) {
	r.Rule("files built by the reference encoder so that chunk boundaries and time ranges are fully controlled: every arrangement of <=3 chunks x <=3 messages (0 included: empty chunks) with timestamps from {0,1,2,2^64-2} on one channel; two-channel families at smaller scope; a ties family (13..16+ equal-heavy messages in every pattern over 2 timestamps); each file - built with and without message index records - read in file, log-time and reverse order, twice; distinct = distinct files")
	r.Assume("oracle: exactly-once by sequence tag, monotone times, file order among equal-time messages of one chunk, second read equals first")
	one := func(maxChunks, maxMsgs int) func(x *explore.Ctx) ([][]arrMsg, string) {
		return func(x *explore.Ctx) ([][]arrMsg, string) {
			return genArrangement(x, 1, maxChunks, maxMsgs, c03Domain, []uint16{1}), ""
		}
	}
	two := func(maxChunks, maxMsgs int) func(x *explore.Ctx) ([][]arrMsg, string) {
		return func(x *explore.Ctx) ([][]arrMsg, string) {
			return genArrangement(x, 1, maxChunks, maxMsgs, c03Domain[:3], []uint16{1, 2}), ""
		}
	}
	if r.Thorough() {
		r.Phase("1-channel-3x3", c03Body("C03", one(3, 3)), chk.PhaseOpts{Share: 0.3})
		r.Phase("2-channel-3x2", c03Body("C03", two(3, 2)), chk.PhaseOpts{Share: 0.3})
		r.Phase("2-channel-2x3", c03Body("C03", two(2, 3)), chk.PhaseOpts{Share: 0.3})
		r.Phase("ties-13..18", c03Body("C03", tiesGen([]int{13, 14, 16, 18})), chk.PhaseOpts{Share: 0.5})
		r.Phase("compressed-3x2", c03Body("C03", func(x *explore.Ctx) ([][]arrMsg, string) {
			comp := []string{"zstd", "lz4"}[x.Choose("cfg", 2)]
			return genArrangement(x, 1, 3, 2, c03Domain[:3], []uint16{1}), comp
		}), chk.PhaseOpts{Share: 0.6})
		histPhase(r, "C03", 4)
		return
	}
	r.Phase("1-channel-3x3", c03Body("C03", one(3, 3)), chk.PhaseOpts{Share: 0.5})
	r.Phase("2-channel-2x2", c03Body("C03", two(2, 2)), chk.PhaseOpts{Share: 0.4})
	r.Phase("ties-13..14", c03Body("C03", tiesGen([]int{13, 14})), chk.PhaseOpts{Share: 0.6})
	r.Phase("lz4-2x2", c03Body("C03", func(x *explore.Ctx) ([][]arrMsg, string) {
		return genArrangement(x, 1, 2, 2, c03Domain[:3], []uint16{1}), "lz4"
	}), chk.PhaseOpts{})
	histPhase(r, "C03", 3)
}

// ---------------------------------------------------------------- C04

type window struct {
	hasS, hasE bool
	s, e       uint64
}

func (w window) match(t uint64) bool {
	if w.hasS && t < w.s {
		return false
	}
	if w.hasE && t >= w.e {
		return false
	}
	return true
}

type expr struct {
	name string
	opts func(w window) ([]mcap.ReadOpt, bool) // false = not expressible
}

func fits(v uint64) bool { return v <= math.MaxInt64 }

var c04Exprs = []expr{
	{"AfterNanos,BeforeNanos", func(w window) ([]mcap.ReadOpt, bool) {
		return []mcap.ReadOpt{mcap.AfterNanos(w.s), mcap.BeforeNanos(w.e)}, w.hasS && w.hasE
	}},
	{"BeforeNanos,AfterNanos", func(w window) ([]mcap.ReadOpt, bool) {
		return []mcap.ReadOpt{mcap.BeforeNanos(w.e), mcap.AfterNanos(w.s)}, w.hasS && w.hasE
	}},
	{"AfterNanos", func(w window) ([]mcap.ReadOpt, bool) { return []mcap.ReadOpt{mcap.AfterNanos(w.s)}, w.hasS && !w.hasE }},
	{"BeforeNanos", func(w window) ([]mcap.ReadOpt, bool) { return []mcap.ReadOpt{mcap.BeforeNanos(w.e)}, !w.hasS && w.hasE }},
	{"none", func(w window) ([]mcap.ReadOpt, bool) { return nil, !w.hasS && !w.hasE }},
	{"After,Before", func(w window) ([]mcap.ReadOpt, bool) {
		return []mcap.ReadOpt{mcap.After(int64(w.s)), mcap.Before(int64(w.e))}, w.hasS && w.hasE && fits(w.s) && fits(w.e)
	}},
	{"Before,After", func(w window) ([]mcap.ReadOpt, bool) {
		return []mcap.ReadOpt{mcap.Before(int64(w.e)), mcap.After(int64(w.s))}, w.hasS && w.hasE && fits(w.s) && fits(w.e)
	}},
	{"After", func(w window) ([]mcap.ReadOpt, bool) {
		return []mcap.ReadOpt{mcap.After(int64(w.s))}, w.hasS && !w.hasE && fits(w.s)
	}},
	{"Before", func(w window) ([]mcap.ReadOpt, bool) {
		return []mcap.ReadOpt{mcap.Before(int64(w.e))}, !w.hasS && w.hasE && fits(w.e)
	}},
}

var c04TopicSets = [][]string{nil, {"zzz"}, {"a"}, {"b"}, {"c"}, {"a", "b", "c"}, {"a", "b", "c", "zzz"}}

func topicMatch(set []string, topic string) bool {
	if len(set) == 0 {
		return true
	}
	for _, s := range set {
		if s == topic {
			return true
		}
	}
	return false
}

// criticalTimes: 0, every message time and its neighbours, chunk starts/ends, 2^63-1, 2^63, 2^64-1.
func criticalTimes(a *arrangement) []uint64 {
	set := map[uint64]bool{0: true, math.MaxInt64: true, 1 << 63: true, math.MaxUint64: true}
	add := func(t uint64) {
		set[t] = true
		if t > 0 {
			set[t-1] = true
		}
		if t < math.MaxUint64 {
			set[t+1] = true
		}
	}
	for _, m := range a.msgs {
		add(m.t)
	}
	for i, rg := range a.ranges {
		if a.hasMsg[i] {
			add(rg[0])
			add(rg[1])
		}
	}
	out := make([]uint64, 0, len(set))
	for t := range set {
		out = append(out, t)
	}
	sort.Slice(out, func(i, j int) bool { return out[i] < out[j] })
	return out
}

type c04Read struct {
	useIndex bool
	order    mcap.ReadOrder
}

var c04Reads = []c04Read{{false, mcap.FileOrder}, {true, mcap.FileOrder}, {true, mcap.LogTimeOrder}, {true, mcap.ReverseLogTimeOrder}}

// c04Check runs one selection through every read mode.
func c04Check(x *explore.Ctx, a *arrangement, w window, ex expr, topics []string, ctxs string) *explore.Verdict {
	wopts, ok := ex.opts(w)
	if !ok {
		return nil
	}
	var sel []arrMsg
	for _, m := range a.msgs {
		if w.match(m.t) && topicMatch(topics, arrChannel(m.ch).Topic) {
			sel = append(sel, m)
		}
	}
	wdesc := fmt.Sprintf("window %s(s=%d,e=%d) topics %v", ex.name, w.s, w.e, topics)
	for _, rd := range c04Reads {
		opts := []mcap.ReadOpt{mcap.UsingIndex(rd.useIndex)}
		if rd.useIndex {
			opts = append(opts, mcap.InOrder(rd.order))
		}
		opts = append(opts, wopts...)
		if topics != nil {
			opts = append(opts, mcap.WithTopics(topics))
		}
		ir := gow.Iterate(bytes.NewReader(a.bytes), gow.NextIntoReused, false, nil, len(a.msgs)+4, opts...)
		x.Add("reads", 1)
		what := fmt.Sprintf("%s, index=%v order=%d", wdesc, rd.useIndex, rd.order)
		deprecated := ex.name == "After,Before" || ex.name == "Before,After" || ex.name == "After" || ex.name == "Before"
		if ir.Panic != "" {
			return vio("C04:panic", "%s panicked: %s%s", what, ir.Panic, ctxs)
		}
		if err := ir.Failed(); err != nil {
			sig := "C04:error-on-legal-selection"
			if deprecated {
				sig = "C04:deprecated-option-error:" + ex.name
			}
			return vio(sig, "%s failed: %v (a legal expression of a window with start<=end)%s", what, err, ctxs)
		}
		var v *explore.Verdict
		if rd.order == mcap.FileOrder {
			// exact file-order sequence of the selection
			if len(ir.Triples) != len(sel) {
				v = vio("C04:wrong-selection", "%s returned %d messages, %d match", what, len(ir.Triples), len(sel))
			} else {
				for i := range sel {
					if ir.Triples[i].M.Sequence != sel[i].seq {
						v = vio("C04:wrong-selection", "%s: position %d holds #%d, expected #%d", what, i, ir.Triples[i].M.Sequence, sel[i].seq)
						break
					}
				}
			}
		} else {
			v = orderOracle("C04", a, ir.Triples, sel, rd.order == mcap.ReverseLogTimeOrder, what)
		}
		if v != nil {
			// narrow the signature for the known shapes
			onlyMaxMissing := !w.hasE && len(ir.Triples) < len(sel)
			if onlyMaxMissing {
				got := map[uint32]bool{}
				for _, g := range ir.Triples {
					got[g.M.Sequence] = true
				}
				for _, m := range sel {
					if !got[m.seq] && m.t != math.MaxUint64 {
						onlyMaxMissing = false
					}
				}
			}
			switch {
			case onlyMaxMissing:
				v.Sig = "C04:missing-logtime-max-without-end-bound"
			case deprecated:
				v.Sig = "C04:deprecated-option-wrong-window:" + ex.name
			}
			v.Msg += ctxs
			return v
		}
	}
	return nil
}

var c04Domain = []uint64{0, 5, 6, math.MaxUint64}

func c04Body(gen func(x *explore.Ctx) [][]arrMsg, full bool) explore.Body {
	return func(x *explore.Ctx) *explore.Verdict {
		chunks := gen(x)
		a := buildArrangement(chunks, "")
		x.Note = func() any { return map[string]any{"chunks": showChunks(chunks)} }
		ctxs := " — chunks " + showChunks(chunks)
		x.State = explore.Hash(a.bytes)
		crit := criticalTimes(a)
		var windows []window
		windows = append(windows, window{})
		for _, s := range crit {
			windows = append(windows, window{hasS: true, s: s}, window{hasE: true, e: s})
			for _, e := range crit {
				if s <= e {
					windows = append(windows, window{true, true, s, e})
				}
			}
		}
		// every window x every expression, with the topic sets {none, "a" (shared by two channels)}
		for _, w := range windows {
			for _, ex := range c04Exprs {
				for _, ts := range [][]string{nil, {"a"}} {
					if v := c04Check(x, a, w, ex, ts, ctxs); v != nil {
						return v
					}
				}
			}
		}
		// every topic set x {no window, one window per critical pair through the nanosecond options}
		for _, ts := range c04TopicSets {
			if v := c04Check(x, a, window{}, c04Exprs[4], ts, ctxs); v != nil {
				return v
			}
			if full {
				for _, w := range windows {
					if v := c04Check(x, a, w, c04Exprs[0], ts, ctxs); v != nil {
						return v
					}
				}
			}
		}
		// the same content without message index records (chunk indexes that list no message index
		// offsets: the reader cannot infer the absence of a topic from them): every topic set x
		// {no window, every window through the nanosecond options}
		b := buildArrangementIdx(chunks, "", false)
		bctx := " (file without message indexes)" + ctxs
		for _, ts := range c04TopicSets {
			if v := c04Check(x, b, window{}, c04Exprs[4], ts, bctx); v != nil {
				return v
			}
			for _, w := range windows {
				if v := c04Check(x, b, w, c04Exprs[0], ts, bctx); v != nil {
					return v
				}
			}
		}
		return nil
	}
}

// C04: topic and time selection returns exactly the matching messages.
func C04(r *chk.Run) {
	r.Rule("encoder-built indexed files: every arrangement of <=2 chunks x <=2 messages over times {0,5,6,2^64-1} on channels 1('a'),2('b'),3('a') plus a message-less channel 4('c'); for every file: every window [s,e) with s<=e over the critical set {0, message times +-1, chunk starts/ends, 2^63-1, 2^63, 2^64-1} plus one-sided and absent windows, expressed through each of 9 option spellings (nanosecond and deprecated int64 options in both argument orders), x topic sets, x {scan, indexed file order, log-time, reverse}; the same content also without message index records (chunk indexes listing no message index offsets) under every topic set x every window; distinct = distinct files; the 'reads' counter gives the number of iterator runs")
	r.Assume("oracle: the model filter topic in S and s <= t < e over the messages the file was built from; an error from a legal expression counts as 'does not mean the same window'")
	gen := func(maxChunks, maxMsgs int, dom []uint64) func(x *explore.Ctx) [][]arrMsg {
		return func(x *explore.Ctx) [][]arrMsg { return genArrangement(x, 1, maxChunks, maxMsgs, dom, []uint16{1, 2, 3}) }
	}
	if r.Thorough() {
		r.Phase("2x2-full", c04Body(gen(2, 2, c04Domain), true), chk.PhaseOpts{Share: 0.6, SplitLen: 5})
		r.Phase("3x1", c04Body(gen(3, 1, c04Domain), true), chk.PhaseOpts{SplitLen: 5, Share: 0.7})
		histPhase(r, "C04", 4)
		return
	}
	r.Phase("2x1", c04Body(gen(2, 1, c04Domain), true), chk.PhaseOpts{Share: 0.3, SplitLen: 4})
	r.Phase("2x2-times{0,5,max}", c04Body(gen(2, 2, []uint64{0, 5, math.MaxUint64}), false), chk.PhaseOpts{SplitLen: 5, Share: 0.8})
	histPhase(r, "C04", 3)
}

// ---------------------------------------------------------------- histories on one Reader

// A Reader may be asked for Info and for several index-based iterators in any order. The history
// phases enumerate every sequence of up to depth operations on ONE Reader and compare each result
// with the result of the same operation on a fresh Reader (a differential oracle that starts from
// non-initial states).

type histOp struct {
	name  string
	opts  func() []mcap.ReadOpt
	drain int // messages to take before abandoning the iterator (-1 = all)
}

var histOps = []histOp{
	{"Info", nil, 0},
	{"Messages(file order) all", func() []mcap.ReadOpt { return []mcap.ReadOpt{mcap.InOrder(mcap.FileOrder)} }, -1},
	{"Messages(log time, topic a) all", func() []mcap.ReadOpt {
		return []mcap.ReadOpt{mcap.InOrder(mcap.LogTimeOrder), mcap.WithTopics([]string{"a"})}
	}, -1},
	{"Messages(log time) all", func() []mcap.ReadOpt { return []mcap.ReadOpt{mcap.InOrder(mcap.LogTimeOrder)} }, -1},
	{"Messages(reverse, topic b) take 1", func() []mcap.ReadOpt {
		return []mcap.ReadOpt{mcap.InOrder(mcap.ReverseLogTimeOrder), mcap.WithTopics([]string{"b"})}
	}, 1},
	{"Messages(log time, window [5,40)) all", func() []mcap.ReadOpt {
		return []mcap.ReadOpt{mcap.InOrder(mcap.LogTimeOrder), mcap.AfterNanos(5), mcap.BeforeNanos(40)}
	}, -1},
	{"Messages(reverse) take 2", func() []mcap.ReadOpt { return []mcap.ReadOpt{mcap.InOrder(mcap.ReverseLogTimeOrder)} }, 2},
}

func histFiles() []*arrangement {
	return []*arrangement{
		buildArrangement([][]arrMsg{{{ch: 1, t: 10}, {ch: 2, t: 50}}, {{ch: 2, t: 5}, {ch: 1, t: 45}}, {{ch: 3, t: 20}, {ch: 3, t: 30}}, {{ch: 2, t: 60}}}, ""),
		buildArrangement([][]arrMsg{{{ch: 2, t: 1}}, {{ch: 1, t: 2}, {ch: 1, t: 3}}, {{ch: 2, t: 4}}}, "lz4"),
		// a file without chunks (hence without chunk indexes): index-based reads fall back to the scan or fail
		{bytes: logicalContents()[0].encode(&layoutSpec{partition: nil, order: ref.GoGroupOrder, opt: 1<<nOpt - 1})},
	}
}

func infoDigest(info *mcap.Info) string {
	s := fmt.Sprintf("ch=%d sch=%d att=%d meta=%d stats=%+v chunks:", len(info.Channels), len(info.Schemas), len(info.AttachmentIndexes), len(info.MetadataIndexes), info.Statistics)
	for _, ci := range info.ChunkIndexes {
		s += fmt.Sprintf(" (%d,%d,%d,%d)", ci.ChunkStartOffset, ci.ChunkLength, ci.MessageStartTime, ci.MessageEndTime)
	}
	return s
}

// runHistOp executes op on rd and renders its result.
func runHistOp(rd *mcap.Reader, op histOp) (res string) {
	defer func() {
		if p := recover(); p != nil {
			res = "panic: " + gow.PanicSite(p)
		}
	}()
	if op.opts == nil {
		info, err := rd.Info()
		if err != nil {
			return "error: " + err.Error()
		}
		return infoDigest(info)
	}
	it, err := rd.Messages(op.opts()...)
	if err != nil {
		return "error: " + err.Error()
	}
	out := ""
	for n := 0; op.drain < 0 || n < op.drain; n++ {
		_, c, m, err := it.NextInto(nil)
		if err != nil {
			out += " end:" + err.Error()
			break
		}
		out += fmt.Sprintf(" #%d@%d/c%d", m.Sequence, m.LogTime, c.ID)
	}
	return out
}

// midScanInfo: Info() (and Info().ChannelCounts(), CanReadMessagesUsingIndex()) called after the
// j-th message of a sequential scan on the same Reader, for every j: the scan must go on to return
// exactly what an undisturbed scan returns.
func midScanInfo(x *explore.Ctx, files []*arrangement) *explore.Verdict {
	fi := x.Choose("op", len(files))
	scan := func(infoAfter int) (string, string) {
		rd, err := mcap.NewReader(bytes.NewReader(files[fi].bytes))
		if err != nil {
			return "", "NewReader: " + err.Error()
		}
		defer rd.Close()
		it, err := rd.Messages(mcap.UsingIndex(false))
		if err != nil {
			return "", "Messages: " + err.Error()
		}
		out, infoRes := "", ""
		for n := 0; ; n++ {
			if n == infoAfter {
				info, err := rd.Info()
				if err != nil {
					infoRes = "error: " + err.Error()
				} else {
					_ = info.ChannelCounts()
					_ = info.CanReadMessagesUsingIndex()
					infoRes = infoDigest(info)
				}
			}
			_, c, m, err := it.NextInto(nil)
			if err != nil {
				out += " end:" + err.Error()
				break
			}
			out += fmt.Sprintf(" #%d@%d/c%d", m.Sequence, m.LogTime, c.ID)
		}
		return out, infoRes
	}
	plain, _ := scan(-1)
	total := len(files[fi].msgs)
	j := x.Choose("op", total+2)
	x.Ops += 2
	x.Note = func() any { return map[string]any{"file": fi, "info_after_message": j} }
	x.State = explore.Hash([]byte(fmt.Sprint("mid", fi, j)))
	defer func() {
		if p := recover(); p != nil {
			panic(p)
		}
	}()
	got, info := scan(j)
	_, freshInfo := scan(0)
	if got != plain {
		return vio("HIST:scan-disturbed-by-Info", "a sequential scan with Info() called after message %d returns %q; undisturbed it returns %q (file %d)", j, got, plain, fi)
	}
	if j <= total && info != freshInfo {
		return vio("HIST:Info-depends-on-reader-history", "Info() called after message %d of a sequential scan returns %q; called first it returns %q (file %d)", j, info, freshInfo, fi)
	}
	return nil
}

func histBody(depth int) explore.Body {
	files := histFiles()
	fresh := map[string]string{}
	return func(x *explore.Ctx) *explore.Verdict {
		if x.Choose("op", 2) == 1 {
			return midScanInfo(x, files)
		}
		fi := x.Choose("op", len(files))
		n := 1 + x.Choose("op", depth)
		rd, err := mcap.NewReader(bytes.NewReader(files[fi].bytes))
		if err != nil {
			return vio("C04:harness", "NewReader: %v", err)
		}
		defer rd.Close()
		var hist []string
		scanned := false
		for i := 0; i < n; i++ {
			k := x.Choose("op", len(histOps))
			op := histOps[k]
			if fi == len(files)-1 && op.opts != nil {
				// the file without index: Messages falls back to the sequential scan, which by design
				// continues from the reader's position; only the first Messages of a history is compared
				if scanned {
					continue
				}
				scanned = true
			}
			hist = append(hist, op.name)
			x.Ops++
			key := fmt.Sprint(fi, "/", k)
			want, ok := fresh[key]
			if !ok {
				frd, _ := mcap.NewReader(bytes.NewReader(files[fi].bytes))
				want = runHistOp(frd, op)
				frd.Close()
				fresh[key] = want
			}
			got := runHistOp(rd, op)
			if got != want {
				x.Note = func() any { return map[string]any{"file": fi, "history": hist} }
				kind := "Messages"
				if op.opts == nil {
					kind = "Info"
				}
				return vio("HIST:"+kind+"-depends-on-reader-history", "after the history %q on one Reader, %s returns %q; a fresh Reader returns %q (file %d)", hist[:len(hist)-1], op.name, got, want, fi)
			}
		}
		x.Note = func() any { return map[string]any{"file": fi, "history": hist} }
		x.State = explore.Hash([]byte(fmt.Sprint(fi, hist)))
		return nil
	}
}

// histPhase runs the history exploration for one property; sigPrefix rewrites the signature.
func histPhase(r *chk.Run, prop string, depth int) {
	body := histBody(depth)
	r.Phase(fmt.Sprintf("reader-histories-depth<=%d", depth), func(x *explore.Ctx) *explore.Verdict {
		v := body(x)
		if v != nil {
			v.Sig = prop + v.Sig[4:]
		}
		return v
	}, chk.PhaseOpts{SplitLen: 3})
}
