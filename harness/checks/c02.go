package checks

import (
	"bytes"
	"errors"
	"fmt"
	"io"
	"sort"

	mcap "github.com/foxglove/mcap/go/mcap"

	"verif/harness/chk"
	"verif/harness/explore"
	"verif/harness/gow"
	"verif/harness/model"
	"verif/harness/ref"
)

// sameMultiset reports whether got is a permutation of want (identity by sequence number + fields).
func sameMultiset(got, want []gow.Triple) bool {
	if len(got) != len(want) {
		return false
	}
	key := func(t gow.Triple) string {
		return fmt.Sprintf("%d/%d/%d/%d", t.M.Sequence, t.M.ChannelID, t.M.LogTime, len(t.M.Data))
	}
	a := make([]string, len(got))
	b := make([]string, len(want))
	for i := range got {
		a[i], b[i] = key(got[i]), key(want[i])
	}
	sort.Strings(a)
	sort.Strings(b)
	for i := range a {
		if a[i] != b[i] {
			return false
		}
	}
	return true
}

func c02Oracle(x *explore.Ctx, c *model.Content, cfg gow.Config, res *gow.Result) *explore.Verdict {
	if _, err := res.FirstErr(); err != nil || res.Panic != "" {
		x.Outcome = "write-failed"
		return nil
	}
	if cfg.Custom != 0 && cfg.Chunked {
		x.Outcome = "custom-codec-skipped" // the Reader API cannot be given a decompressor
		return nil
	}
	ctxs := " — " + cfg.String() + " — " + c.String()
	b := res.Bytes
	scan := gow.Iterate(bytes.NewReader(b), gow.NextIntoNil, true, nil, 0, mcap.UsingIndex(false))
	if scan.Panic != "" || scan.Failed() != nil {
		return vio("C02:scan-failed", "sequential scan failed: %v %s%s", scan.Failed(), scan.Panic, ctxs)
	}
	indexable := cfg.Chunked && !cfg.Has(gow.FSkipChunkIndex) && !cfg.Has(gow.FSkipRepeatedSchemas) && !cfg.Has(gow.FSkipRepeatedChannelInfos)
	f := ref.Decode(b, true, cfg.Codecs())
	var metaIdx, attIdx []*ref.Rec
	var metas, atts []*ref.Rec
	nChunkIdx := 0
	for i := range f.Recs {
		switch f.Recs[i].Op {
		case ref.OpChunkIndex:
			nChunkIdx++
		case ref.OpMetadataIndex:
			metaIdx = append(metaIdx, &f.Recs[i])
		case ref.OpAttachmentIndex:
			attIdx = append(attIdx, &f.Recs[i])
		case ref.OpMetadata:
			metas = append(metas, &f.Recs[i])
		case ref.OpAttachment:
			atts = append(atts, &f.Recs[i])
		}
	}
	// metadata callback, sequential read: every metadata record
	if len(scan.Meta) != len(metas) {
		return vio("C02:scan-metadata-callback", "sequential read: metadata callback saw %d of %d records%s", len(scan.Meta), len(metas), ctxs)
	}
	type ord struct {
		name string
		opts []mcap.ReadOpt
		file bool
	}
	orders := []ord{
		{"default", []mcap.ReadOpt{mcap.UsingIndex(true)}, true},
		{"FileOrder", []mcap.ReadOpt{mcap.UsingIndex(true), mcap.InOrder(mcap.FileOrder)}, true},
		{"LogTimeOrder", []mcap.ReadOpt{mcap.UsingIndex(true), mcap.InOrder(mcap.LogTimeOrder)}, false},
		{"ReverseLogTimeOrder", []mcap.ReadOpt{mcap.UsingIndex(true), mcap.InOrder(mcap.ReverseLogTimeOrder)}, false},
	}
	// a file without any chunk has no index at all: the fall-back-or-error clause applies
	indexable = indexable && nChunkIdx > 0
	outcome := "fallback-or-error"
	if indexable {
		outcome = "indexed"
	}
	for _, o := range orders {
		for _, mode := range []int{gow.NextIntoNil, gow.NextBuf} {
			ir := gow.Iterate(bytes.NewReader(b), mode, true, nil, 0, o.opts...)
			what := "indexed read (" + o.name + ", " + modeNames[mode] + ")"
			if ir.Panic != "" {
				return vio("C02:index-panic", "%s panicked: %s%s", what, ir.Panic, ctxs)
			}
			if ir.Unstable != "" {
				return vio("C02:index-unstable", "%s: %s%s", what, ir.Unstable, ctxs)
			}
			if err := ir.Failed(); err != nil {
				if indexable {
					return vio("C02:index-error", "%s failed on an indexed file: %v%s", what, err, ctxs)
				}
				outcome = "error"
				continue // fall-back-or-error clause: an error is acceptable
			}
			if o.file {
				if v := compareTriples("C02", what+" vs scan", ir.Triples, scan.Triples); v != nil {
					if !indexable && len(ir.Triples) < len(scan.Triples) {
						v.Sig = "C02:silent-loss"
						if len(ir.Triples) == 0 && cfg.Has(gow.FSkipRepeatedChannelInfos) {
							v.Sig = "C02:silent-loss-no-summary-channels"
						}
					}
					v.Msg += ctxs
					return v
				}
			} else if !sameMultiset(ir.Triples, scan.Triples) {
				sig := "C02:order-multiset"
				if !indexable && len(ir.Triples) < len(scan.Triples) {
					sig = "C02:silent-loss"
					if len(ir.Triples) == 0 && cfg.Has(gow.FSkipRepeatedChannelInfos) {
						sig = "C02:silent-loss-no-summary-channels"
					}
				}
				return vio(sig, "%s returned %d messages, the scan %d (not the same multiset)%s", what, len(ir.Triples), len(scan.Triples), ctxs)
			}
			// metadata callback on the index-based path: every indexed metadata record
			if _, isIdx := mcap.VerifSlots(ir.It); isIdx {
				if len(ir.Meta) != len(metaIdx) {
					return vio("C02:index-metadata-callback", "%s: metadata callback saw %d records, %d are indexed%s", what, len(ir.Meta), len(metaIdx), ctxs)
				}
				for i, mr := range metaIdx {
					t := recAt(f, mr.MetadataIndex.Offset)
					if t == nil || t.Metadata == nil || !gow.EqualMetadata(&ir.Meta[i], t.Metadata) {
						return vio("C02:index-metadata-callback", "%s: metadata %d differs from the indexed record%s", what, i, ctxs)
					}
				}
			} else if len(ir.Meta) != len(metas) {
				return vio("C02:fallback-metadata-callback", "%s (fell back to scan): metadata callback saw %d of %d records%s", what, len(ir.Meta), len(metas), ctxs)
			}
		}
	}
	// a topic selection through the default (index-preferring) read: exactly the scan's messages on that topic, or an error
	topics := map[string]bool{}
	for _, t := range scan.Triples {
		topics[t.C.Topic] = true
	}
	var topicList []string
	for topic := range topics {
		topicList = append(topicList, topic)
	}
	sort.Strings(topicList)
	for _, topic := range topicList {
		var want []gow.Triple
		for _, t := range scan.Triples {
			if t.C.Topic == topic {
				want = append(want, t)
			}
		}
		ir := gow.Iterate(bytes.NewReader(b), gow.NextIntoNil, false, nil, 0, mcap.WithTopics([]string{topic}))
		if ir.Panic != "" {
			return vio("C02:index-panic", "topic-filtered read panicked: %s%s", ir.Panic, ctxs)
		}
		if err := ir.Failed(); err != nil {
			if indexable {
				return vio("C02:index-error", "Messages(WithTopics(%q)) failed on an indexed file: %v%s", topic, err, ctxs)
			}
			continue
		}
		if v := compareTriples("C02", fmt.Sprintf("Messages(WithTopics(%q)) vs scan", topic), ir.Triples, want); v != nil {
			if len(ir.Triples) < len(want) {
				v.Sig = "C02:topic-filter-silent-loss"
			}
			v.Msg += ctxs
			return v
		}
	}
	// random access through the index entries
	rd, err := mcap.NewReader(bytes.NewReader(b))
	if err != nil {
		return vio("C02:open", "NewReader: %v%s", err, ctxs)
	}
	defer rd.Close()
	var verdict *explore.Verdict
	func() {
		defer func() {
			if p := recover(); p != nil {
				verdict = vio("C02:random-access-panic", "random access panicked: %s%s", gow.PanicSite(p), ctxs)
			}
		}()
		info, err := rd.Info()
		if err != nil {
			verdict = vio("C02:info-error", "Info: %v%s", err, ctxs)
			return
		}
		if len(info.AttachmentIndexes) != len(attIdx) || len(info.MetadataIndexes) != len(metaIdx) {
			verdict = vio("C02:info-index-count", "Info lists %d/%d attachment/metadata indexes, file has %d/%d%s", len(info.AttachmentIndexes), len(info.MetadataIndexes), len(attIdx), len(metaIdx), ctxs)
			return
		}
		for i, ai := range info.AttachmentIndexes {
			ar, err := rd.GetAttachmentReader(ai.Offset)
			if err != nil {
				verdict = vio("C02:attachment-access", "GetAttachmentReader(%d): %v%s", ai.Offset, err, ctxs)
				return
			}
			data, err := io.ReadAll(ar.Data())
			if err != nil {
				verdict = vio("C02:attachment-access", "reading attachment at %d: %v%s", ai.Offset, err, ctxs)
				return
			}
			want := atts[i].Attachment // index i designates attachment i (validated by C05)
			got := &ref.Attachment{LogTime: ar.LogTime, CreateTime: ar.CreateTime, Name: ar.Name, MediaType: ar.MediaType, Data: data}
			cc, e1 := ar.ComputedCRC()
			pc, e2 := ar.ParsedCRC()
			if !gow.EqualAttachment(got, want) || e1 != nil || e2 != nil || cc != pc || pc != want.CRC {
				verdict = vio("C02:attachment-content", "attachment via index entry %d: got %s crc %08x/%08x (%v,%v), written %s crc %08x%s", i, clipAtt(got), cc, pc, e1, e2, clipAtt(want), want.CRC, ctxs)
				return
			}
		}
		for i, mi := range info.MetadataIndexes {
			md, err := rd.GetMetadata(mi.Offset)
			if err != nil {
				verdict = vio("C02:metadata-access", "GetMetadata(%d): %v%s", mi.Offset, err, ctxs)
				return
			}
			want := metas[i].Metadata
			if !gow.EqualMetadata(&ref.Metadata{Name: md.Name, Metadata: ref.MapKV(md.Metadata)}, want) {
				verdict = vio("C02:metadata-content", "metadata via index entry %d differs%s", i, ctxs)
				return
			}
		}
	}()
	if verdict != nil {
		return verdict
	}
	x.Outcome = outcome
	return nil
}

func recAt(f *ref.File, off uint64) *ref.Rec {
	for i := range f.Recs {
		if uint64(f.Recs[i].Off) == off {
			return &f.Recs[i]
		}
	}
	return nil
}

var _ = errors.Is

// C02: index-based access finds exactly what a sequential scan finds.
func C02(r *chk.Run) {
	idxFlags := gow.FSkipMessageIndexing | gow.FSkipChunkIndex | gow.FSkipRepeatedSchemas | gow.FSkipRepeatedChannelInfos | gow.FSkipStatistics
	all := (1<<gow.NFlags - 1) &^ gow.FSkipMagic
	so := spaceOpts{flagBits: all, k1Full: 1, k1Reduced: 2, k2Depth: 3, skipMagicOff: true, emphasisMask: idxFlags | gow.FSkipAttachmentIndex | gow.FSkipMetadataIndex,
		k1Extra: []k1Phase{{"full", idxFlags, model.Full(false), 2}, {"reduced", idxFlags | gow.FSkipAttachmentIndex | gow.FSkipMetadataIndex | gow.FSkipSummaryOffsets, model.Reduced(), 4}}}
	if r.Thorough() {
		so = spaceOpts{flagBits: all, k1Full: 2, k1Reduced: 3, k2Depth: 4, k3Depth: 3, skipMagicOff: true,
			k1Extra: []k1Phase{{"full", idxFlags, model.Full(true), 3}, {"reduced", idxFlags | gow.FSkipAttachmentIndex | gow.FSkipMetadataIndex | gow.FSkipSummaryOffsets, model.Reduced(), 5}}}
	}
	r.Assume("differential oracle: the non-indexed scan of the same file (itself compared with the call log by C01); attachment/metadata contents from the reference decoder")
	r.Assume("SkipMagic and custom-codec configurations are excluded: Reader cannot open/decompress them")
	r.Rule("indexable configurations (chunk indexes + repeated schemas + repeated channels): file-order indexed sequence must equal the scan element-wise, time orders must be permutations; every other configuration: equal to the scan or an error, never fewer messages; every attachment/metadata index entry is dereferenced; metadata callback counted on both paths")
	// the fall-back decision must not depend on what the Reader was used for before (Info, other iterators);
	// this cheap phase runs first so that it is never starved by the writer space on a loaded machine
	d := 3
	if r.Thorough() {
		d = 4
	}
	histPhase(r, "C02", d)
	writerSpace(r, so, c02Oracle)
}
