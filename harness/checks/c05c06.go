package checks

import (
	"verif/harness/chk"
	"verif/harness/explore"
	"verif/harness/gow"
	"verif/harness/model"
	"verif/harness/ref"
)

func specOracle(prop string) writerOracle {
	return func(x *explore.Ctx, c *model.Content, cfg gow.Config, res *gow.Result) *explore.Verdict {
		if i, err := res.FirstErr(); err != nil || res.Panic != "" {
			_ = i
			x.Outcome = "write-failed"
			return nil // C01 judges failing writes; an unclosed file is outside C05/C06
		}
		f := ref.Decode(res.Bytes, !cfg.Has(gow.FSkipMagic), cfg.Codecs())
		probs := ref.Validate(f, cfg.Expect())
		x.Outcome = "valid"
		for _, p := range probs {
			if p.Prop == prop {
				x.Outcome = "invalid"
				return &explore.Verdict{Sig: prop + ":" + p.Rule, Msg: p.Msg + " — " + cfg.String() + " — " + c.String()}
			}
		}
		return nil
	}
}

// C05: writer output is a spec-valid file whose every pointer is exact.
func C05(r *chk.Run) {
	so := spaceOpts{flagBits: 1<<gow.NFlags - 1, k1Full: 2, k1Reduced: 3, k2Depth: 4, k3Depth: 0}
	if r.Thorough() {
		so = spaceOpts{flagBits: 1<<gow.NFlags - 1, k1Full: 3, k1Reduced: 4, k2Depth: 5, k3Depth: 3}
	}
	r.Assume("the reference decoder/validator (harness/ref) implements website/docs/spec/index.md; it shares no code with go/mcap (zstd/lz4 modules and hash/crc32 are shared third-party/stdlib code)")
	r.Assume("leniency: a non-zero footer summary_offset_start that designates an empty summary-offset section is accepted")
	writerSpace(r, so, specOracle("C05"))
	r.Rule("raw-record API: every file of {fixed multi-chunk workloads, generated tiny workloads} x 4 chunk modes x 5 flag sets x CRC is re-emitted through a second writer that gets its chunks unopened (AddSchema/AddChannel/WriteChunkWithIndexes + exported Statistics counters) and must again be spec-valid and read back identically")
	pd := 2
	if r.Thorough() {
		pd = 3
	}
	passthroughPhase(r, "C05", pd)
}

// C06: emitted checksums cover exactly the bytes the spec says.
func C06(r *chk.Run) {
	crcFlags := gow.FSkipMagic | gow.FSkipStatistics | gow.FSkipRepeatedSchemas | gow.FSkipRepeatedChannelInfos | gow.FSkipSummaryOffsets | gow.FSkipChunkIndex | gow.FSkipAttachmentIndex | gow.FSkipMetadataIndex
	so := spaceOpts{flagBits: crcFlags, k1Full: 2, k1Reduced: 3, k2Depth: 4}
	if r.Thorough() {
		so = spaceOpts{flagBits: 1<<gow.NFlags - 1, k1Full: 3, k1Reduced: 4, k2Depth: 5, k3Depth: 3}
	}
	r.Assume("CRC-32 (IEEE) recomputed with hash/crc32 from the file bytes by harness/ref; the byte ranges are those of the specification")
	writerSpace(r, so, specOracle("C06"))
}
