package checks

import (
	"fmt"
	"os"
	"reflect"
	"strings"
	"time"

	"github.com/foxglove/mcap/go/ros/ros1msg"

	"verif/harness/chk"
	"verif/harness/gow"
	"verif/harness/iso"
)

// ---------------------------------------------------------------- family (a): type graphs

type gField struct {
	name string
	prim string // primitive type name, or ""
	ref  int    // index of the referenced named type (when prim == "")
	form int    // 0 qualified, 1 unqualified (same package), 2 "Header"
	arr  int    // 0 none, 1 [], 2 [3]
}

type gType struct {
	pkg, name string
	fields    []gField
}

// universe of named types: index 0 is the top-level type.
var c19Universe = []gType{{pkg: "pkga", name: "Top"}, {pkg: "pkga", name: "P"}, {pkg: "pkgb", name: "P"}, {pkg: "pkgb", name: "Q"}, {pkg: "std_msgs", name: "Header"}}

// nDeco decorations: plain, trailing comment, tabs and blanks, constant line, blank+comment lines, comment glued to the name
const nDeco = 6

type picker struct{ v uint64 }

func (p *picker) pick(n int) int {
	r := int(p.v % uint64(n))
	p.v /= uint64(n)
	return r
}

type fieldChoice struct {
	prim string
	ref  int
	form int
}

// choicesFor lists the field types a type of package pkg may use, given the dependency set.
func choicesFor(pkg string, ds []int) []fieldChoice {
	out := []fieldChoice{{prim: "int32"}, {prim: "string"}}
	for _, d := range ds {
		t := c19Universe[d]
		out = append(out, fieldChoice{ref: d, form: 0})
		switch {
		case t.pkg == "std_msgs" && t.name == "Header":
			out = append(out, fieldChoice{ref: d, form: 2})
		case t.pkg == pkg:
			out = append(out, fieldChoice{ref: d, form: 1})
		}
	}
	return out
}

func typeOptions(nChoices, maxFields int) uint64 {
	n, acc := uint64(0), uint64(nChoices)*3
	for f := 1; f <= maxFields; f++ {
		n += acc
		acc *= uint64(nChoices)
	}
	return n
}

func setSpace(ds []int, maxFields int) uint64 {
	n := uint64(nDeco)
	for _, ti := range append([]int{0}, ds...) {
		n *= typeOptions(len(choicesFor(c19Universe[ti].pkg, ds)), maxFields)
	}
	return n
}

func graphSpace(depSets [][]int, maxFields int) uint64 {
	n := uint64(0)
	for _, ds := range depSets {
		n += setSpace(ds, maxFields)
	}
	return n
}

// genGraph decodes index i (exact mixed radix, no holes) into a graph and a decoration.
func genGraph(i uint64, depSets [][]int, maxFields int) (types []gType, deco int, ok bool) {
	var ds []int
	found := false
	for _, d := range depSets {
		n := setSpace(d, maxFields)
		if i < n {
			ds, found = d, true
			break
		}
		i -= n
	}
	if !found {
		return nil, 0, false
	}
	p := &picker{v: i}
	deco = p.pick(nDeco)
	for _, ti := range append([]int{0}, ds...) {
		t := c19Universe[ti]
		ch := choicesFor(t.pkg, ds)
		k := uint64(p.pick(int(typeOptions(len(ch), maxFields))))
		// k selects the number of fields, then the fields
		nf, acc := 1, uint64(len(ch))*3
		for k >= acc {
			k -= acc
			acc *= uint64(len(ch))
			nf++
		}
		q := &picker{v: k}
		for f := 0; f < nf; f++ {
			c := ch[q.pick(len(ch))]
			fl := gField{name: fmt.Sprintf("f%d", f), prim: c.prim, ref: c.ref, form: c.form}
			if f == 0 {
				fl.arr = q.pick(3)
			}
			t.fields = append(t.fields, fl)
		}
		types = append(types, t)
	}
	return types, deco, true
}

func (f gField) typeText(types []gType) string {
	s := f.prim
	if s == "" {
		t := c19Universe[f.ref]
		switch f.form {
		case 0:
			s = t.pkg + "/" + t.name
		case 1:
			s = t.name
		case 2:
			s = "Header"
		}
	}
	return s + []string{"", "[]", "[3]"}[f.arr]
}

// render writes the concatenated definition text with the chosen decoration.
func renderGraph(types []gType, deco int) string {
	var b strings.Builder
	for ti, t := range types {
		if ti > 0 {
			b.WriteString("================================================================================\n")
			b.WriteString("MSG: " + t.pkg + "/" + t.name + "\n")
		}
		if deco == 3 {
			b.WriteString("int32 CONST=7\n")
		}
		if deco == 4 {
			b.WriteString("\n# a comment line\n")
		}
		for _, f := range t.fields {
			switch deco {
			case 1:
				b.WriteString(f.typeText(types) + " " + f.name + " # trailing = comment? no: see below\n")
			case 2:
				b.WriteString("  " + f.typeText(types) + " \t  " + f.name + "  \n")
			case 5:
				b.WriteString(f.typeText(types) + " " + f.name + "#glued comment\n")
			default:
				b.WriteString(f.typeText(types) + " " + f.name + "\n")
			}
		}
	}
	return b.String()
}

func cyclic(types []gType) bool {
	idx := map[int]int{}
	for i, t := range types {
		for ui, u := range c19Universe {
			if u.pkg == t.pkg && u.name == t.name {
				idx[ui] = i
			}
		}
	}
	state := make([]int, len(types))
	var visit func(i int) bool
	visit = func(i int) bool {
		if state[i] == 1 {
			return true
		}
		if state[i] == 2 {
			return false
		}
		state[i] = 1
		for _, f := range types[i].fields {
			if f.prim == "" {
				if visit(idx[f.ref]) {
					return true
				}
			}
		}
		state[i] = 2
		return false
	}
	return visit(0)
}

// expectTree builds the field tree the definition describes (acyclic graphs only).
func expectTree(types []gType, ti int) []ros1msg.Field {
	idx := map[int]int{}
	for i, t := range types {
		for ui, u := range c19Universe {
			if u.pkg == t.pkg && u.name == t.name {
				idx[ui] = i
			}
		}
	}
	out := []ros1msg.Field{}
	for _, f := range types[ti].fields {
		text := f.typeText(types)
		base := strings.TrimSuffix(strings.TrimSuffix(text, "[]"), "[3]")
		var sub []ros1msg.Field
		isRec := f.prim == ""
		if isRec {
			sub = expectTree(types, idx[f.ref])
		}
		if f.arr > 0 {
			out = append(out, ros1msg.Field{Name: f.name, Type: ros1msg.Type{BaseType: text, IsArray: true, FixedSize: []int{0, 0, 3}[f.arr],
				Items: &ros1msg.Type{BaseType: base, IsRecord: isRec, Fields: sub}}})
		} else {
			out = append(out, ros1msg.Field{Name: f.name, Type: ros1msg.Type{BaseType: text, IsRecord: isRec, Fields: sub}})
		}
	}
	return out
}

func parseGuard(tag, def string, want []ros1msg.Field) iso.Outcome {
	var got []ros1msg.Field
	o := iso.Guard(tag, 512<<20, func(p any) string { return gow.PanicSite(p) }, func() error {
		var err error
		got, err = ros1msg.ParseMessageDefinition("pkga", []byte(def))
		return err
	})
	if want != nil {
		if o.Class == "error" {
			o.Class, o.Site = "wrong", "valid acyclic definition rejected"
		} else if o.Class == "ok" && !reflect.DeepEqual(got, want) {
			o.Class, o.Site = "wrong", "parsed tree differs from the generating graph"
		}
	}
	return o
}

// ---------------------------------------------------------------- family (b): short strings

var c19Alphabet = []byte{'a', '[', ']', '/', ' ', '\n', '=', '#', '1'}

func shortString(i uint64, maxLen int) (string, bool) {
	// strings are ordered by length, then base-9 value
	for l := 0; l <= maxLen; l++ {
		n := uint64(1)
		for k := 0; k < l; k++ {
			n *= uint64(len(c19Alphabet))
		}
		if i < n {
			b := make([]byte, l)
			for k := 0; k < l; k++ {
				b[k] = c19Alphabet[i%uint64(len(c19Alphabet))]
				i /= uint64(len(c19Alphabet))
			}
			return string(b), true
		}
		i -= n
	}
	return "", false
}

func shortStringCount(maxLen int) uint64 {
	t, n := uint64(0), uint64(1)
	for l := 0; l <= maxLen; l++ {
		t += n
		n *= uint64(len(c19Alphabet))
	}
	return t
}

// mutations of a valid definition: every bracket deleted / duplicated / replaced by its partner,
// every separator line shortened to "=" / removed / duplicated, every "MSG: " prefix dropped.
func mutateDef(def string) []string {
	var out []string
	for i := 0; i < len(def); i++ {
		c := def[i]
		if c == '[' || c == ']' {
			other := byte('[')
			if c == '[' {
				other = ']'
			}
			out = append(out, def[:i]+def[i+1:], def[:i]+string(c)+def[i:], def[:i]+string(other)+def[i+1:])
		}
	}
	lines := strings.SplitAfter(def, "\n")
	for li, l := range lines {
		join := func(repl ...string) string {
			n := append([]string{}, lines[:li]...)
			n = append(n, repl...)
			return strings.Join(append(n, lines[li+1:]...), "")
		}
		if strings.HasPrefix(l, "=") {
			out = append(out, join("=\n"), join(), join(l, l))
		}
		if strings.HasPrefix(l, "MSG: ") {
			out = append(out, join(strings.TrimPrefix(l, "MSG: ")), join(l, l))
			// the marker without a type name, in every spelling; the definition cut right after the marker
			out = append(out, join("MSG:\n"), join("MSG: \n"), join("MSG:\t\n"), join("MSG:"), join("MSG"), join("MSG: /\n"), join("MSG: pkga/\n"))
			cut := strings.Join(lines[:li], "")
			out = append(out, cut+"MSG: ", cut+"MSG:", cut+"MSG")
		}
	}
	return out
}

// C19: ROS 1 message definitions parse to the right tree, and always terminate.
func C19(r *chk.Run) {
	r.Rule("(a) every type graph over a top-level type plus up to D dependency types drawn from {pkga/P, pkgb/P, pkgb/Q, std_msgs/Header}, up to F fields per type, field type in {int32, string, each dependency referred to exactly-qualified / unqualified-same-package / as Header}, array suffix none/[]/[3] on the first field, 6 decorations (plain, trailing comment, tabs and blanks, constant line, blank+comment lines, comment glued to the field name), INCLUDING cyclic graphs; acyclic graphs must parse to exactly the generating tree; (b) every string of length <= L over {a [ ] / space newline = # 1}, and over the separator/marker alphabet {= newline M S G : space a}; (d) deterministic deep and wide graphs: each of the 16 primitive types x array suffix x 6 decorations; chains Top->L1->...->L5 of depth 1..5 across two packages with every admissible reference form and array suffix per level, a primitive sibling before or after the reference, 3 leaf kinds; diamonds (two paths to one shared type, dependency definitions out of reference order); homonyms (pkga/P and pkgb/P with different bodies, each referred to by its bare name from inside its own package) - each must parse to exactly the generating tree; (c) every single-token mutation (bracket deleted/duplicated/swapped, separator shortened/removed/duplicated, MSG: prefix dropped, MSG: marker without a type name in every spelling, definition cut right after the marker) of the valid definitions of (a) at small scope; every input runs in an isolated worker (ulimit -v 8 GiB, 64 MiB stack cap, 30 s per input): outcome must be ok or error; distinct = inputs run")
	r.Assume("an unqualified reference is generated only where the resolution rule makes it valid (same package as the enclosing type, or Header for std_msgs/Header)")
	quickSets := [][]int{{}, {1}, {2}, {3}, {4}, {1, 2}, {2, 3}, {1, 4}, {3, 4}}
	fullSets := append(append([][]int{}, quickSets...), []int{1, 2, 3}, []int{2, 3, 4}, []int{1, 3, 4})
	type fam struct {
		name string
		n    uint64
		fn   iso.Fn
	}
	graphFam := func(name string, sets [][]int, maxFields int) fam {
		n := graphSpace(sets, maxFields)
		return fam{name, n, func(i int) []iso.Outcome {
			types, deco, ok := genGraph(uint64(i), sets, maxFields)
			if !ok {
				return nil
			}
			def := renderGraph(types, deco)
			var want []ros1msg.Field
			if !cyclic(types) {
				want = expectTree(types, 0)
			}
			return []iso.Outcome{parseGuard("ParseMessageDefinition/graph", def, want)}
		}}
	}
	// the same over the separator/marker alphabet {= newline M S G : space a}
	alpha2 := []byte{'=', '\n', 'M', 'S', 'G', ':', ' ', 'a'}
	str2 := func(i uint64, maxLen int) string {
		for l := 0; l <= maxLen; l++ {
			n := uint64(1)
			for k := 0; k < l; k++ {
				n *= uint64(len(alpha2))
			}
			if i < n {
				b := make([]byte, l)
				for k := 0; k < l; k++ {
					b[k] = alpha2[i%uint64(len(alpha2))]
					i /= uint64(len(alpha2))
				}
				return string(b)
			}
			i -= n
		}
		return ""
	}
	strFam2 := func(maxLen int) fam {
		total, n := uint64(0), uint64(1)
		for l := 0; l <= maxLen; l++ {
			total += n
			n *= uint64(len(alpha2))
		}
		return fam{fmt.Sprintf("marker-strings-len<=%d", maxLen), total, func(i int) []iso.Outcome {
			return []iso.Outcome{parseGuard("ParseMessageDefinition/string", str2(uint64(i), maxLen), nil)}
		}}
	}
	strFam := func(maxLen int) fam {
		return fam{fmt.Sprintf("strings-len<=%d", maxLen), shortStringCount(maxLen), func(i int) []iso.Outcome {
			s, _ := shortString(uint64(i), maxLen)
			return []iso.Outcome{parseGuard("ParseMessageDefinition/string", s, nil)}
		}}
	}
	mutFam := func(sets [][]int) fam {
		n := graphSpace(sets, 1)
		return fam{"mutated-definitions", n, func(i int) []iso.Outcome {
			types, deco, ok := genGraph(uint64(i), sets, 1)
			if !ok || deco != 0 {
				return nil
			}
			var out []iso.Outcome
			for _, m := range mutateDef(renderGraph(types, 0)) {
				out = append(out, parseGuard("ParseMessageDefinition/mutated", m, nil))
			}
			return out
		}}
	}
	deepFam := fam{"deep-and-wide-graphs", deepSpace(), func(i int) []iso.Outcome {
		types, deco, ok := genDeep(uint64(i))
		if !ok {
			return nil
		}
		return []iso.Outcome{parseGuard("ParseMessageDefinition/deep", renderGraph(types, deco), expectTree(types, 0))}
	}}
	fams := []fam{strFam(6), strFam2(6), mutFam(quickSets), deepFam, graphFam("graphs-2fields-<=1dep", quickSets[:5], 2), graphFam("graphs-1field-<=3deps", fullSets, 1)}
	if r.Thorough() {
		fams = []fam{strFam(7), strFam2(8), mutFam(fullSets), deepFam, graphFam("graphs-1field-<=3deps", fullSets, 1), graphFam("graphs-3fields-<=1dep", quickSets[:5], 3), graphFam("graphs-2fields-<=2deps", quickSets, 2)}
	}
	for _, f := range fams {
		replayIso(r, f.name, f.fn)
	}
	if r.Replay != nil {
		return
	}
	for _, f := range fams {
		if !r.TimeLeft() && !iso.IsWorker() {
			r.Count(f.name, 0, 0, 0, false, map[string]any{"skipped": "internal deadline"})
			continue
		}
		batch := int(f.n/uint64(r.Workers*8)) + 1
		if batch > 200000 {
			batch = 200000
		}
		res := iso.Run("C19/"+f.name, int(f.n), batch, r.Workers, 30*time.Second, r.Deadline, f.fn)
		r.Count(f.name, res.Calls, res.Calls, res.Calls, res.Exhaustive, map[string]any{"index_space": f.n, "inputs_run": res.Calls, "outcome_classes": res.ByClass, "worker_restarts": res.Restarts, "not_reproducible_alone": len(res.NotRepro)})
		reportBad(r, "C19", f.name, res, func(i int) any {
			switch {
			case strings.HasPrefix(f.name, "marker-strings"):
				return map[string]any{"definition": str2(uint64(i), 8)}
			case strings.HasPrefix(f.name, "strings"):
				s, _ := shortString(uint64(i), 7)
				return map[string]any{"definition": s}
			}
			if f.name == "deep-and-wide-graphs" {
				if types, deco, ok := genDeep(uint64(i)); ok {
					return map[string]any{"definition": renderGraph(types, deco)}
				}
				return nil
			}
			sets, mf := quickSets, 2
			switch {
			case strings.Contains(f.name, "2fields-<=1dep"):
				sets = quickSets[:5]
			case strings.Contains(f.name, "<=3deps"):
				sets, mf = fullSets, 1
			case strings.Contains(f.name, "3fields"):
				sets, mf = quickSets[:5], 3
			case f.name == "mutated-definitions":
				mf = 1
				if r.Thorough() {
					sets = fullSets
				}
			}
			if types, deco, ok := genGraph(uint64(i), sets, mf); ok {
				return map[string]any{"definition": renderGraph(types, deco), "note": "for mutated-definitions the failing input is one of the mutations of this definition"}
			}
			return nil
		})
	}
	r.Nontrivial(0)
}

// replayIso re-runs the single input recorded in a replay file of an isolated-worker check, in this
// process (no explorer, no worker): it prints the outcome and exits 1 if it is not ok/error.
func replayIso(r *chk.Run, name string, fn iso.Fn) {
	if r.Replay == nil {
		return
	}
	d, _ := r.Replay.Detail.(map[string]any)
	if d == nil || d["family"] != name {
		return
	}
	idx := int(d["index"].(float64))
	fmt.Printf("replay family=%s index=%d\n", name, idx)
	bad := false
	for _, o := range fn(idx) {
		fmt.Printf("  %s: %s %s (allocated %d bytes)\n", o.Tag, o.Class, o.Site, o.Alloc)
		if o.Class != "ok" && o.Class != "error" && !strings.HasPrefix(o.Class, "deferred") {
			bad = true
		}
	}
	if bad {
		fmt.Println("replay verdict: VIOLATION")
		os.Exit(1)
	}
	fmt.Println("replay verdict: property holds on this input (a process death or stall would not have returned)")
	os.Exit(0)
}

// reportBad turns the bad outcomes of an isolated run into violations, grouped by signature.
func reportBad(r *chk.Run, prop, fam string, res *iso.Result, describe func(i int) any) {
	groups := map[string][]iso.Bad{}
	var order []string
	for _, b := range res.Bad {
		site := b.Site
		if b.Class == "hang" {
			site = ""
		}
		sig := fmt.Sprintf("%s:%s:%s:%s", prop, b.Tag, b.Class, site)
		if _, ok := groups[sig]; !ok {
			order = append(order, sig)
		}
		groups[sig] = append(groups[sig], b)
	}
	for _, sig := range order {
		g := groups[sig]
		r.Violation(fam, sig, fmt.Sprintf("%s: %s (%s) on %d inputs of family %s; first: input #%d", g[0].Tag, g[0].Class, g[0].Site, len(g), fam, g[0].Index), map[string]any{"family": fam, "index": g[0].Index, "input": describe(g[0].Index)}, int64(len(g)))
	}
	for _, nr := range res.NotRepro {
		r.Sample(map[string]any{"note": "worker death in a batch that did not reproduce when the input was re-run alone (not a violation)", "family": fam, "index": nr.Index, "class": nr.Class})
	}
}
