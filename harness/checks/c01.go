package checks

import (
	"bytes"
	"errors"
	"fmt"
	"io"

	mcap "github.com/foxglove/mcap/go/mcap"

	"verif/harness/chk"
	"verif/harness/explore"
	"verif/harness/gow"
	"verif/harness/model"
	"verif/harness/ref"
)

func vio(sig, format string, a ...any) *explore.Verdict {
	return &explore.Verdict{Sig: sig, Msg: fmt.Sprintf(format, a...)}
}

// expectedLibrary is the documented header library rule.
func expectedLibrary(cfg gow.Config, given string) string {
	if cfg.Has(gow.FOverrideLibrary) {
		return given
	}
	lib := "mcap-go/" + mcap.Version[1:]
	if given != "" && given != lib {
		lib += "; " + given
	}
	return lib
}

// compareLex checks one lexer run against the call log. It returns a verdict or nil.
func compareLex(c *model.Content, cfg gow.Config, lr *gow.LexResult, what string) *explore.Verdict {
	if lr.Panic != "" {
		return vio("C01:lexer-panic", "%s: lexer panicked: %s", what, lr.Panic)
	}
	if lr.NewErr != nil {
		return vio("C01:lexer-open", "%s: NewLexer failed: %v", what, lr.NewErr)
	}
	if !errors.Is(lr.Err, io.EOF) {
		return vio("C01:lexer-error", "%s: lexer ended with %v instead of io.EOF", what, lr.Err)
	}
	if lr.Unstable != "" {
		return vio("C01:lexer-unstable", "%s: %s", what, lr.Unstable)
	}
	// expected de-chunked data stream
	var wantData []model.Op
	var wantAtt []*ref.Attachment
	var wantMeta []*ref.Metadata
	for _, o := range c.Ops {
		switch o.Kind {
		case model.KSchema, model.KChannel, model.KMessage:
			wantData = append(wantData, o)
		case model.KAttachment:
			wantAtt = append(wantAtt, o.A)
		case model.KMetadata:
			wantMeta = append(wantMeta, o.D)
		}
	}
	di, ai, mi := 0, 0, 0
	sawHeader, sawDataEnd := false, false
	for i, t := range lr.Toks {
		if sawDataEnd {
			break
		}
		r := ref.Rec{Body: t.Body}
		switch t.Type {
		case mcap.TokenHeader:
			if i != 0 {
				return vio("C01:lexer-header", "%s: header token at position %d", what, i)
			}
			r.Op = ref.OpHeader
			ref.ParseBody(&r)
			if r.Err != "" || r.Header.Profile != c.Header.Profile || r.Header.Library != expectedLibrary(cfg, c.Header.Library) {
				return vio("C01:lexer-header", "%s: header read back as %+v, written (%q,%q)", what, r.Header, c.Header.Profile, c.Header.Library)
			}
			sawHeader = true
		case mcap.TokenSchema, mcap.TokenChannel, mcap.TokenMessage:
			if di >= len(wantData) {
				return vio("C01:lexer-extra", "%s: extra %v token beyond the %d records written", what, t.Type, len(wantData))
			}
			w := wantData[di]
			di++
			ok := false
			switch {
			case t.Type == mcap.TokenSchema && w.Kind == model.KSchema:
				r.Op = ref.OpSchema
				ref.ParseBody(&r)
				ok = r.Err == "" && len(r.Tail) == 0 && r.Schema.Equal(w.S)
			case t.Type == mcap.TokenChannel && w.Kind == model.KChannel:
				r.Op = ref.OpChannel
				ref.ParseBody(&r)
				ok = r.Err == "" && len(r.Tail) == 0 && gow.EqualChannel(r.Channel, w.C)
			case t.Type == mcap.TokenMessage && w.Kind == model.KMessage:
				r.Op = ref.OpMessage
				ref.ParseBody(&r)
				ok = r.Err == "" && gow.EqualMessage(r.Message, w.M)
			}
			if !ok {
				return vio("C01:lexer-record", "%s: data record %d read back as %v % x, written %s", what, di-1, t.Type, clip(t.Body), w)
			}
		case gow.TokAttachment:
			if ai >= len(wantAtt) || !gow.EqualAttachment(t.Att, wantAtt[ai]) {
				return vio("C01:lexer-attachment", "%s: attachment %d read back as %+v", what, ai, clipAtt(t.Att))
			}
			if t.ComputedCRC != t.ParsedCRC {
				return vio("C01:lexer-attachment-crc", "%s: attachment %d computed CRC %08x != stored %08x", what, ai, t.ComputedCRC, t.ParsedCRC)
			}
			ai++
		case mcap.TokenMetadata:
			r.Op = ref.OpMetadata
			ref.ParseBody(&r)
			if mi >= len(wantMeta) || r.Err != "" || !gow.EqualMetadata(r.Metadata, wantMeta[mi]) {
				return vio("C01:lexer-metadata", "%s: metadata %d read back as %+v", what, mi, r.Metadata)
			}
			mi++
		case mcap.TokenDataEnd:
			sawDataEnd = true
		case mcap.TokenMessageIndex:
		default:
			return vio("C01:lexer-unexpected", "%s: unexpected %v token in the data section", what, t.Type)
		}
	}
	if !sawHeader || !sawDataEnd {
		return vio("C01:lexer-structure", "%s: header seen %v, data end seen %v", what, sawHeader, sawDataEnd)
	}
	if di != len(wantData) || ai != len(wantAtt) || mi != len(wantMeta) {
		return vio("C01:lexer-missing", "%s: read %d/%d data records, %d/%d attachments, %d/%d metadata", what, di, len(wantData), ai, len(wantAtt), mi, len(wantMeta))
	}
	return nil
}

func clip(b []byte) []byte {
	if len(b) > 48 {
		return b[:48]
	}
	return b
}
func clipAtt(a *ref.Attachment) string {
	if a == nil {
		return "nil"
	}
	return fmt.Sprintf("{log %d create %d %q %q %d bytes}", a.LogTime, a.CreateTime, a.Name, a.MediaType, len(a.Data))
}

// lastDef returns, for a position in the op list, the schema/channel definition in force.
func expectTriples(c *model.Content) []gow.Triple {
	var out []gow.Triple
	chans := map[uint16]*ref.Channel{}
	schemas := map[uint16]*ref.Schema{}
	for _, o := range c.Ops {
		switch o.Kind {
		case model.KSchema:
			schemas[o.S.ID] = o.S
		case model.KChannel:
			chans[o.C.ID] = o.C
		case model.KMessage:
			ch := chans[o.M.ChannelID]
			out = append(out, gow.Triple{S: schemas[ch.SchemaID], C: ch, M: o.M})
		}
	}
	return out
}

func equalTriple(a, b gow.Triple) bool {
	return gow.EqualSchema(a.S, b.S) && gow.EqualChannel(a.C, b.C) && gow.EqualMessage(a.M, b.M)
}

func showTriple(t gow.Triple) string {
	s := "nil"
	if t.S != nil {
		s = fmt.Sprint(t.S.ID)
	}
	return fmt.Sprintf("(schema %s, channel %d %q, msg #%d t=%d z=%d)", s, t.C.ID, t.C.Topic, t.M.Sequence, t.M.LogTime, len(t.M.Data))
}

// compareTriples checks got against want element-wise; prefixOK allows got to be a strict prefix
// when the read ended with an error.
func compareTriples(prop, what string, got, want []gow.Triple) *explore.Verdict {
	same := func(a, b []gow.Triple) bool {
		if len(a) != len(b) {
			return false
		}
		for i := range a {
			if !equalTriple(a[i], b[i]) {
				return false
			}
		}
		return true
	}
	if same(got, want) {
		return nil
	}
	// narrow signature: exactly the messages with log time 2^64-1 are missing, nothing else differs
	var noMax []gow.Triple
	for _, t := range want {
		if t.M.LogTime != model.MaxT {
			noMax = append(noMax, t)
		}
	}
	if len(noMax) != len(want) && same(got, noMax) {
		return vio(prop+":iter-missing-logtime-max", "%s: returned %d of %d messages; exactly the messages with log time 2^64-1 are missing", what, len(got), len(want))
	}
	for i := range got {
		if i >= len(want) {
			return vio(prop+":iter-extra", "%s: returned %d messages, %d were written; extra %s", what, len(got), len(want), showTriple(got[i]))
		}
		if !equalTriple(got[i], want[i]) {
			return vio(prop+":iter-different", "%s: message %d is %s, expected %s", what, i, showTriple(got[i]), showTriple(want[i]))
		}
	}
	return vio(prop+":iter-missing", "%s: returned %d of %d messages; first missing %s", what, len(got), len(want), showTriple(want[len(got)]))
}

var modeNames = []string{"Next(nil)", "Next(buf)", "NextInto(nil)", "NextInto(reused)"}

// dropMax removes the triples with log time 2^64-1 (used to look past known finding C01/C04 #2).
func readerBytes(cfg gow.Config, b []byte) []byte {
	if cfg.Has(gow.FSkipMagic) {
		return append(append([]byte(nil), ref.Magic...), b...)
	}
	return b
}

func c01Oracle(x *explore.Ctx, c *model.Content, cfg gow.Config, res *gow.Result) *explore.Verdict {
	if res.Panic != "" {
		return vio("C01:write-panic", "writer panicked: %s — %s — %s", res.Panic, cfg, c)
	}
	if i, err := res.FirstErr(); err != nil {
		return vio("C01:write-error", "legal call %s failed: %v — %s — %s", res.Calls[i], err, cfg, c)
	}
	ctxs := " — " + cfg.String() + " — " + c.String()
	for _, validate := range []bool{false, true} {
		for _, reuse := range []bool{false, true} {
			lo := gow.LexOpts{SkipMagic: cfg.Has(gow.FSkipMagic), Validate: validate, AttCRC: true, ReuseBuf: reuse, Decomp: cfg.Decompressors()}
			lr := gow.Lex(bytes.NewReader(res.Bytes), lo)
			if v := compareLex(c, cfg, lr, fmt.Sprintf("lexer(validate=%v,reuse=%v)", validate, reuse)); v != nil {
				v.Msg += ctxs
				return v
			}
		}
	}
	want := expectTriples(c)
	rb := readerBytes(cfg, res.Bytes)
	for mode := 0; mode < 4; mode++ {
		ir := gow.Iterate(bytes.NewReader(rb), mode, true, nil, 0, mcap.UsingIndex(false))
		what := "unindexed " + modeNames[mode]
		if ir.Panic != "" {
			return vio("C01:iter-panic", "%s panicked: %s%s", what, ir.Panic, ctxs)
		}
		if ir.Unstable != "" {
			return vio("C01:iter-unstable", "%s: %s%s", what, ir.Unstable, ctxs)
		}
		if err := ir.Failed(); err != nil {
			if cfg.Custom != 0 && cfg.Chunked {
				// the Reader API cannot be given a decompressor: an error is fine, wrong data is not
				if len(ir.Triples) <= len(want) {
					if v := compareTriples("C01", what, ir.Triples, want[:len(ir.Triples)]); v != nil {
						v.Msg += ctxs
						return v
					}
				}
				x.Outcome = "custom-codec-reader-error"
				continue
			}
			return vio("C01:iter-error", "%s failed: %v%s", what, err, ctxs)
		}
		if v := compareTriples("C01", what, ir.Triples, want); v != nil {
			v.Msg += ctxs
			return v
		}
		// metadata callback of the sequential read: every metadata record, in order
		var wantMeta []*ref.Metadata
		for _, o := range c.Ops {
			if o.Kind == model.KMetadata {
				wantMeta = append(wantMeta, o.D)
			}
		}
		if len(want) > 0 || true {
			if len(ir.Meta) != len(wantMeta) {
				return vio("C01:iter-metadata", "%s: metadata callback saw %d of %d records%s", what, len(ir.Meta), len(wantMeta), ctxs)
			}
			for i := range wantMeta {
				if !gow.EqualMetadata(&ir.Meta[i], wantMeta[i]) {
					return vio("C01:iter-metadata", "%s: metadata %d differs%s", what, i, ctxs)
				}
			}
		}
	}
	if x.Outcome == "" {
		x.Outcome = "equal"
	}
	return nil
}

// C01: write then sequential read returns exactly what was written.
func C01(r *chk.Run) {
	dataFlags := gow.FSkipMagic | gow.FOverrideLibrary | gow.FSkipMessageIndexing | gow.FSkipChunkIndex
	so := spaceOpts{flagBits: 1<<gow.NFlags - 1, k1Full: 1, k1Reduced: 2, k2Depth: 3, emphasisMask: dataFlags,
		k1Extra: []k1Phase{{"full", dataFlags, model.Full(false), 3}, {"reduced", dataFlags, model.Reduced(), 4}}}
	if r.Thorough() {
		so = spaceOpts{flagBits: 1<<gow.NFlags - 1, k1Full: 2, k1Reduced: 3, k2Depth: 5, k3Depth: 3,
			k1Extra: []k1Phase{{"full", dataFlags, model.Full(true), 3}, {"reduced", dataFlags, model.Reduced(), 5}}}
	}
	r.Assume("reference model = the call log; nil and empty byte slices / maps are equal (the format cannot distinguish them)")
	r.Assume("custom-codec configurations: the Reader API cannot be given a decompressor, so only the lexer path must reproduce the data; the iterator may fail but must not return wrong data")
	r.Rule("each written file is read back through 4 lexer variants (CRC validation x caller buffer reuse) and the non-indexed iterator through Next(nil), Next(buf), NextInto(nil), NextInto(reused); values returned by allocating calls are retained and re-compared at the end (stability clause)")
	// the cheap, distinct phase first, so that the large writer space cannot starve it on a loaded machine
	r.Phase("record-length-sweeps", c01SweepBody(r.Thorough()), chk.PhaseOpts{SplitLen: 3, Share: 0.3})
	writerSpace(r, so, c01Oracle)
}

// strN returns a string of n bytes.
func strN(n int) string { return string(bytes.Repeat([]byte{'x'}, n)) }

// sweepOp builds one record of the given kind whose variable part has length n.
func sweepOp(kind, n int, seq uint32) model.Op {
	switch kind {
	case 0:
		return model.Sch(&ref.Schema{ID: uint16(10 + seq), Name: strN(n), Encoding: "e", Data: []byte{1}})
	case 1:
		return model.Chn(&ref.Channel{ID: uint16(10 + seq), SchemaID: 0, Topic: strN(n), MessageEncoding: "m", Metadata: []ref.KV{{K: "k", V: "v"}}})
	case 2:
		return model.Chn(&ref.Channel{ID: uint16(10 + seq), SchemaID: 0, Topic: "t", MessageEncoding: "m", Metadata: []ref.KV{{K: "k", V: strN(n)}}})
	case 3:
		return model.Met(&ref.Metadata{Name: "n", Metadata: []ref.KV{{K: strN(n), V: ""}}})
	case 4:
		return model.Att(&ref.Attachment{LogTime: 1, CreateTime: 2, Name: strN(n), MediaType: "m", Data: []byte{1, 2}})
	}
	return model.Chn(&ref.Channel{ID: uint16(10 + seq), SchemaID: 0, Topic: strN(n), MessageEncoding: "", Metadata: nil}) // no metadata
}

// c01SweepBody: the writer sizes its record scratch buffer from the records it has seen (doubling),
// so off-by-a-few errors only show for a record a few bytes larger than the current buffer. The
// sweep writes, with a fresh writer, a first record of one of a few sizes followed by a second
// record of EVERY length in a window around twice the first one's size (and every length from 0 to
// 1200 when there is no first record), for every pair of record kinds.
func c01SweepBody(thorough bool) explore.Body {
	firsts := []int{-1, 0, 40, 600, 3000}
	return func(x *explore.Ctx) *explore.Verdict {
		k2 := x.Choose("op", 6)
		fi := x.Choose("arg", len(firsts))
		first := firsts[fi]
		k1 := 0
		lo, hi := 0, 1200
		if first >= 0 {
			k1 = x.Choose("op", 6)
			lo, hi = 2*first-60, 2*first+60
			if lo < 0 {
				lo = 0
			}
		}
		n := lo + x.Choose("arg", hi-lo+1)
		var ops []model.Op
		if first >= 0 {
			ops = append(ops, sweepOp(k1, first, 1))
		}
		ops = append(ops, sweepOp(k2, n, 2), model.Chn(model.C0), model.Msg(0, 1, 3, 0))
		c := model.Fixed(model.Headers[0], ops...)
		cfg := gow.Config{CRC: true, Chunked: n%2 == 0, ChunkSize: 1 << 20}
		res := gow.Write(c, cfg, nil, nil)
		x.Ops += len(ops)
		x.Note = note(c, cfg)
		x.State = explore.Hash(res.Bytes)
		if v := c01Oracle(x, c, cfg, res); v != nil {
			v.Msg = clipS(v.Msg)
			return v
		}
		if probs := ref.Validate(ref.Decode(res.Bytes, true), cfg.Expect()); len(probs) > 0 {
			return vio("C01:sweep-invalid-file", "length sweep: %s (first record kind %d length %d, second kind %d length %d)", probs[0].Msg, k1, first, k2, n)
		}
		return nil
	}
}
