package checks

import (
	"bufio"
	"bytes"
	"encoding/hex"
	"encoding/json"
	"errors"
	"fmt"
	"io"
	"os"
	"os/exec"
	"path/filepath"
	"reflect"
	"sort"
	"strconv"
	"strings"
	"sync"

	mcap "github.com/foxglove/mcap/go/mcap"

	"verif/harness/chk"
	"verif/harness/explore"
	"verif/harness/gow"
	"verif/harness/model"
	"verif/harness/ref"
)

// ---------------------------------------------------------------- shared helpers

type pyRec map[string]any

type pyPart struct {
	OK    json.RawMessage `json:"ok"`
	Error string          `json:"error"`
}

func (p *pyPart) recs() []pyRec {
	var out []pyRec
	_ = json.Unmarshal(p.OK, &out)
	return out
}

type pyRead struct {
	File        string `json:"file"`
	Stream      pyPart `json:"stream"`
	Header      pyPart `json:"header"`
	Summary     pyPart `json:"summary"`
	FileOrder   pyPart `json:"file_order"`
	LogOrder    pyPart `json:"log_order"`
	Reverse     pyPart `json:"reverse"`
	Attachments pyPart `json:"attachments"`
	Metadata    pyPart `json:"metadata"`
}

func runPython(script string, args []string, shards int, each func(line []byte)) error {
	var wg sync.WaitGroup
	var mu sync.Mutex
	var firstErr error
	for s := 0; s < shards; s++ {
		wg.Add(1)
		go func(s int) {
			defer wg.Done()
			a := append([]string{script}, args...)
			a = append(a, strconv.Itoa(s), strconv.Itoa(shards))
			cmd := exec.Command("python3", a...)
			cmd.Env = append(os.Environ(), "PYTHONPATH="+chk.Repo()+"/python/mcap", "VERIF_REPO="+chk.Repo(), "PYTHONDONTWRITEBYTECODE=1")
			var stderr bytes.Buffer
			cmd.Stderr = &stderr
			out, err := cmd.StdoutPipe()
			if err == nil {
				err = cmd.Start()
			}
			if err != nil {
				mu.Lock()
				firstErr = err
				mu.Unlock()
				return
			}
			sc := bufio.NewScanner(out)
			sc.Buffer(make([]byte, 1<<20), 64<<20)
			for sc.Scan() {
				line := append([]byte(nil), sc.Bytes()...)
				mu.Lock()
				each(line)
				mu.Unlock()
			}
			if err := cmd.Wait(); err != nil {
				mu.Lock()
				if firstErr == nil {
					firstErr = fmt.Errorf("%s shard %d: %v: %s", script, s, err, clipS(stderr.String()))
				}
				mu.Unlock()
			}
		}(s)
	}
	wg.Wait()
	return firstErr
}

func hx(b []byte) string { return hex.EncodeToString(b) }
func us(v uint64) string { return strconv.FormatUint(v, 10) }

func kvObj(kv []ref.KV) map[string]any {
	m := map[string]any{}
	for _, e := range kv {
		m[e.K] = e.V
	}
	return m
}

func pySchema(s *ref.Schema) pyRec {
	return pyRec{"t": "Schema", "id": float64(s.ID), "name": s.Name, "encoding": s.Encoding, "data": hx(s.Data)}
}
func pyChannel(c *ref.Channel) pyRec {
	return pyRec{"t": "Channel", "id": float64(c.ID), "schema_id": float64(c.SchemaID), "topic": c.Topic, "enc": c.MessageEncoding, "metadata": kvObj(c.Metadata)}
}
func pyMessage(m *ref.Message) pyRec {
	return pyRec{"t": "Message", "channel_id": float64(m.ChannelID), "sequence": float64(m.Sequence), "log_time": us(m.LogTime), "publish_time": us(m.PublishTime), "data": hx(m.Data)}
}
func pyAttachment(a *ref.Attachment) pyRec {
	return pyRec{"t": "Attachment", "log_time": us(a.LogTime), "create_time": us(a.CreateTime), "name": a.Name, "media_type": a.MediaType, "data": hx(a.Data)}
}
func pyMetadata(d *ref.Metadata) pyRec {
	return pyRec{"t": "Metadata", "name": d.Name, "metadata": kvObj(d.Metadata)}
}

// ---------------------------------------------------------------- Go -> Python

type g2pCase struct {
	cfg     gow.Config
	c       *model.Content
	nChunks int
}

func g2pCheck(cs *g2pCase, pr *pyRead) (sig, msg string) {
	c, cfg := cs.c, cs.cfg
	// --- streaming reader: always compared
	if pr.Stream.Error != "" {
		return "C16:go->py:stream-error", "Python StreamReader(validate_crcs) failed: " + pr.Stream.Error
	}
	var wantData, wantAtt, wantMeta []pyRec
	for _, o := range c.Ops {
		switch o.Kind {
		case model.KSchema:
			wantData = append(wantData, pySchema(o.S))
		case model.KChannel:
			wantData = append(wantData, pyChannel(o.C))
		case model.KMessage:
			wantData = append(wantData, pyMessage(o.M))
		case model.KAttachment:
			wantAtt = append(wantAtt, pyAttachment(o.A))
		case model.KMetadata:
			wantMeta = append(wantMeta, pyMetadata(o.D))
		}
	}
	var gotData, gotAtt, gotMeta []pyRec
	var gotStats pyRec
	recs := pr.Stream.recs()
	if len(recs) == 0 || recs[0]["t"] != "Header" || recs[0]["profile"] != c.Header.Profile || recs[0]["library"] != expectedLibrary(cfg, c.Header.Library) {
		return "C16:go->py:stream-header", fmt.Sprintf("Python stream reader: header %v, written (%q,%q)", recs[:minInt(1, len(recs))], c.Header.Profile, c.Header.Library)
	}
	for _, r := range recs[1:] {
		switch r["t"] {
		case "Schema", "Channel", "Message":
			gotData = append(gotData, r)
		case "Attachment":
			gotAtt = append(gotAtt, r)
		case "Metadata":
			gotMeta = append(gotMeta, r)
		case "Statistics":
			gotStats = r
		}
	}
	if !reflect.DeepEqual(gotData, wantData) {
		return "C16:go->py:stream-records", fmt.Sprintf("Python stream reader returned %d schema/channel/message records that differ from the %d written: %s", len(gotData), len(wantData), firstDiff(gotData, wantData))
	}
	if !reflect.DeepEqual(gotAtt, wantAtt) || !reflect.DeepEqual(gotMeta, wantMeta) {
		return "C16:go->py:stream-attachments-metadata", "Python stream reader: attachments or metadata differ from what was written"
	}
	ms := c.Stats()
	if !cfg.Has(gow.FSkipStatistics) {
		per := map[string]any{}
		for k, v := range ms.PerChannel {
			per[strconv.Itoa(int(k))] = us(v)
		}
		want := pyRec{"t": "Statistics", "message_count": us(ms.MessageCount), "schema_count": float64(ms.SchemaCount), "channel_count": float64(ms.ChannelCount),
			"attachment_count": float64(ms.AttachmentCount), "metadata_count": float64(ms.MetadataCount), "chunk_count": float64(cs.nChunks), "start": us(ms.Start), "end": us(ms.End), "per_channel": per}
		if !reflect.DeepEqual(gotStats, want) {
			return "C16:go->py:statistics", fmt.Sprintf("Python reads statistics %v, written content has %v", gotStats, want)
		}
	}
	// --- seeking reader
	var hdr pyRec
	_ = json.Unmarshal(pr.Header.OK, &hdr)
	if pr.Header.Error != "" || hdr["profile"] != c.Header.Profile {
		return "C16:go->py:seek-header", "Python seeking reader: header " + pr.Header.Error
	}
	if pr.Summary.Error != "" {
		return "C16:go->py:seek-summary", "Python get_summary failed: " + pr.Summary.Error
	}
	var summ map[string]any
	_ = json.Unmarshal(pr.Summary.OK, &summ)
	// the seeking reader must see the summary the Go writer wrote, and the same statistics
	if !cfg.Has(gow.FSkipStatistics) {
		if summ == nil {
			return "C16:go->py:seek-summary-missing", "Python get_summary() returns None although the Go writer wrote a summary section with statistics"
		}
		per := map[string]any{}
		for k, v := range ms.PerChannel {
			per[strconv.Itoa(int(k))] = us(v)
		}
		wantS := map[string]any{"t": "Statistics", "message_count": us(ms.MessageCount), "schema_count": float64(ms.SchemaCount), "channel_count": float64(ms.ChannelCount),
			"attachment_count": float64(ms.AttachmentCount), "metadata_count": float64(ms.MetadataCount), "chunk_count": float64(cs.nChunks), "start": us(ms.Start), "end": us(ms.End), "per_channel": per}
		if !reflect.DeepEqual(jsonNorm(summ["stats"]), jsonNorm(wantS)) {
			return "C16:go->py:seek-statistics", fmt.Sprintf("Python get_summary().statistics %v, written content has %v", summ["stats"], wantS)
		}
	}
	if summ != nil {
		wc, wsch := float64(0), float64(0)
		if !cfg.Has(gow.FSkipRepeatedChannelInfos) {
			wc = float64(ms.ChannelCount)
		}
		if !cfg.Has(gow.FSkipRepeatedSchemas) {
			wsch = float64(ms.SchemaCount)
		}
		wci := float64(0)
		if !cfg.Has(gow.FSkipChunkIndex) {
			wci = float64(cs.nChunks)
		}
		if summ["channels"] != wc || summ["schemas"] != wsch || summ["chunk_indexes"] != wci {
			return "C16:go->py:seek-summary-listing", fmt.Sprintf("Python summary lists %v channels / %v schemas / %v chunk indexes, the file carries %v / %v / %v", summ["channels"], summ["schemas"], summ["chunk_indexes"], wc, wsch, wci)
		}
	}
	want := expectTriples(c)
	wantTr := make([]pyRec, len(want))
	for i, t := range want {
		var sid any
		if t.S != nil {
			sid = float64(t.S.ID)
		}
		wantTr[i] = pyRec{"schema": sid, "channel": float64(t.C.ID), "topic": t.C.Topic, "m": map[string]any(pyMessage(t.M))}
	}
	indexed := summ != nil && summ["chunk_indexes"].(float64) > 0
	reliesOnMissing := indexed && (cfg.Has(gow.FSkipRepeatedChannelInfos) || cfg.Has(gow.FSkipRepeatedSchemas))
	if !reliesOnMissing {
		norm := func(p *pyPart) ([]pyRec, string) {
			if p.Error != "" {
				return nil, p.Error
			}
			var l []pyRec
			_ = json.Unmarshal(p.OK, &l)
			return l, ""
		}
		fo, e := norm(&pr.FileOrder)
		if e != "" {
			return "C16:go->py:seek-messages-error", "Python seeking reader iter_messages(file order) failed: " + e
		}
		if !reflect.DeepEqual(jsonNorm(fo), jsonNorm(wantTr)) {
			return "C16:go->py:seek-messages", fmt.Sprintf("Python seeking reader (file order) returned %d messages that differ from the %d written: %s", len(fo), len(wantTr), firstDiff(fo, wantTr))
		}
		for ri, p := range []*pyPart{&pr.LogOrder, &pr.Reverse} {
			l, e := norm(p)
			if e != "" {
				return "C16:go->py:seek-messages-error", "Python seeking reader iter_messages(time order) failed: " + e
			}
			if !indexed && ri == 1 {
				continue // the linear fallback of the Python reader does not implement reverse order
			}
			if len(l) != len(wantTr) {
				return "C16:go->py:seek-time-order", fmt.Sprintf("Python time-ordered read %d returned %d of %d messages", ri, len(l), len(wantTr))
			}
			a, b := make([]string, len(l)), make([]string, len(l))
			for i := range l {
				x, _ := json.Marshal(l[i])
				y, _ := json.Marshal(wantTr[i])
				a[i], b[i] = string(x), string(y)
				if i > 0 {
					t0, _ := strconv.ParseUint(l[i-1]["m"].(map[string]any)["log_time"].(string), 10, 64)
					t1, _ := strconv.ParseUint(l[i]["m"].(map[string]any)["log_time"].(string), 10, 64)
					if ri == 0 && t1 < t0 || ri == 1 && t1 > t0 {
						return "C16:go->py:seek-time-order", fmt.Sprintf("Python time-ordered read %d is not sorted", ri)
					}
				}
			}
			sort.Strings(a)
			sort.Strings(b)
			if !reflect.DeepEqual(a, b) {
				return "C16:go->py:seek-time-order", fmt.Sprintf("Python time-ordered read %d returned different messages", ri)
			}
		}
	}
	if summ == nil || summ["attachment_indexes"].(float64) > 0 {
		if pr.Attachments.Error != "" || !reflect.DeepEqual(jsonNorm(pr.Attachments.recs()), jsonNorm(wantAtt)) {
			return "C16:go->py:seek-attachments", "Python seeking reader: attachments differ from what was written " + pr.Attachments.Error
		}
	}
	if summ == nil || summ["metadata_indexes"].(float64) > 0 {
		if pr.Metadata.Error != "" || !reflect.DeepEqual(jsonNorm(pr.Metadata.recs()), jsonNorm(wantMeta)) {
			return "C16:go->py:seek-metadata", "Python seeking reader: metadata differs from what was written " + pr.Metadata.Error
		}
	}
	return "", ""
}

func jsonNorm(v any) any {
	b, _ := json.Marshal(v)
	var o any
	_ = json.Unmarshal(b, &o)
	if o == nil {
		return []any{}
	}
	return o
}

func minInt(a, b int) int {
	if a < b {
		return a
	}
	return b
}

// ---------------------------------------------------------------- Python -> Go

type pyOp struct {
	K                                                  string            `json:"k"`
	Name, Encoding, Data, Topic, Enc                   string            `json:",omitempty"`
	Schema, Channel                                    int               `json:",omitempty"`
	Metadata                                           map[string]string `json:"metadata,omitempty"`
	LogTime, PublishTime, CreateTime, MediaType        string            `json:",omitempty"`
	Sequence                                           int               `json:",omitempty"`
}

type p2gSpec struct {
	Name    string           `json:"name"`
	Profile string           `json:"profile"`
	Library string           `json:"library"`
	Options map[string]any   `json:"options"`
	Ops     []map[string]any `json:"ops"`
}

type p2gSide struct {
	Name            string         `json:"name"`
	Error           string         `json:"error"`
	SchemaIDs       []int          `json:"schema_ids"`
	ChannelIDs      []int          `json:"channel_ids"`
	EmittedSchemas  []int          `json:"emitted_schemas"`
	EmittedChannels []int          `json:"emitted_channels"`
	PyStats         map[string]any `json:"py_stats"`
	PySelfReadError string         `json:"py_self_read_error"`
}

var p2gIndexNames = []string{"ATTACHMENT", "CHUNK", "MESSAGE", "METADATA"}

// genP2G enumerates a Python writer option set and a workload through the Python API's alphabet.
func genP2G(x *explore.Ctx, allOptions bool, depth int) *p2gSpec {
	s := &p2gSpec{Profile: "p", Library: "lib é", Ops: []map[string]any{}}
	o := map[string]any{}
	bools := []string{"repeat_channels", "repeat_schemas", "use_chunking", "use_statistics", "use_summary_offsets", "enable_crcs", "enable_data_crcs"}
	var idx []string
	if allOptions {
		o["chunk_size"] = []int{1, 64, 1 << 20}[x.Choose("cfg", 3)]
		for _, n := range p2gIndexNames {
			if x.Bool("cfg") {
				idx = append(idx, n)
			}
		}
		for _, b := range bools {
			o[b] = x.Bool("cfg")
		}
	} else {
		o["chunk_size"] = []int{1, 64}[x.Choose("cfg", 2)]
		sets := [][]string{p2gIndexNames, {}, {"CHUNK"}, {"CHUNK", "MESSAGE"}}
		idx = sets[x.Choose("cfg", len(sets))]
		on := x.Bool("cfg")
		for _, b := range bools {
			o[b] = on || b == "use_chunking" || b == "enable_crcs"
		}
	}
	if idx == nil {
		idx = []string{}
	}
	o["index_types"] = idx
	s.Options = o
	n := x.Choose("op", depth+1)
	nSchemas, nChannels := 0, 0
	seq := 0
	for i := 0; i < n; i++ {
		menu := []string{"schema", "channel", "attachment", "metadata"}
		if nChannels > 0 {
			menu = append(menu, "message")
		}
		switch menu[x.Choose("op", len(menu))] {
		case "schema":
			if x.Bool("arg") {
				s.Ops = append(s.Ops, map[string]any{"k": "schema", "name": "s1", "encoding": "e", "data": "010203"})
			} else {
				s.Ops = append(s.Ops, map[string]any{"k": "schema", "name": "", "encoding": "", "data": ""})
			}
			nSchemas++
		case "channel":
			sc := x.Choose("arg", nSchemas+1) - 1
			if x.Bool("arg") {
				s.Ops = append(s.Ops, map[string]any{"k": "channel", "topic": "t0", "enc": "", "schema": sc, "metadata": map[string]string{}})
			} else {
				s.Ops = append(s.Ops, map[string]any{"k": "channel", "topic": "t1 é", "enc": "x", "schema": sc, "metadata": map[string]string{"k": "v", "é": "ü", "": ""}})
			}
			nChannels++
		case "message":
			ch := x.Choose("arg", nChannels)
			tz := []struct {
				t uint64
				z int
			}{{0, 0}, {5, 3}, {model.MaxT, 70}}[x.Choose("arg", 3)]
			seq++
			d := make([]byte, tz.z)
			for k := range d {
				d[k] = byte(seq*16 + k)
			}
			s.Ops = append(s.Ops, map[string]any{"k": "message", "channel": ch, "log_time": us(tz.t), "publish_time": us(tz.t / 2), "data": hx(d), "sequence": seq})
		case "attachment":
			s.Ops = append(s.Ops, map[string]any{"k": "attachment", "create_time": "7", "log_time": us(model.MaxT), "name": "a é", "media_type": "m/t", "data": "0a0b0c"})
		case "metadata":
			s.Ops = append(s.Ops, map[string]any{"k": "metadata", "name": "md", "metadata": map[string]string{"a": "b", "é": ""}})
		}
		x.Ops++
	}
	return s
}

// p2gCheck reads one Python-written file with the Go readers and compares with what Python wrote.
func p2gCheck(s *p2gSpec, side *p2gSide, b []byte) (sig, msg string) {
	if side.Error != "" {
		return "", "" // the Python writer refused the workload: nothing to compare
	}
	emS, emC := map[int]bool{}, map[int]bool{}
	for _, v := range side.EmittedSchemas {
		emS[v] = true
	}
	for _, v := range side.EmittedChannels {
		emC[v] = true
	}
	// model of what Python wrote
	schemas := map[uint16]*ref.Schema{}
	channels := map[uint16]*ref.Channel{}
	var msgs []*ref.Message
	var atts []*ref.Attachment
	var metas []*ref.Metadata
	si, ci := 0, 0
	for _, op := range s.Ops {
		switch op["k"] {
		case "schema":
			id := uint16(side.SchemaIDs[si])
			si++
			d, _ := hex.DecodeString(op["data"].(string))
			schemas[id] = &ref.Schema{ID: id, Name: op["name"].(string), Encoding: op["encoding"].(string), Data: d}
		case "channel":
			id := uint16(side.ChannelIDs[ci])
			ci++
			sid := uint16(0)
			if k := op["schema"].(int); k >= 0 {
				sid = uint16(side.SchemaIDs[k])
			}
			channels[id] = &ref.Channel{ID: id, SchemaID: sid, Topic: op["topic"].(string), MessageEncoding: op["enc"].(string), Metadata: ref.MapKV(op["metadata"].(map[string]string))}
		case "message":
			lt, _ := strconv.ParseUint(op["log_time"].(string), 10, 64)
			pt, _ := strconv.ParseUint(op["publish_time"].(string), 10, 64)
			d, _ := hex.DecodeString(op["data"].(string))
			msgs = append(msgs, &ref.Message{ChannelID: uint16(side.ChannelIDs[op["channel"].(int)]), Sequence: uint32(op["sequence"].(int)), LogTime: lt, PublishTime: pt, Data: d})
		case "attachment":
			lt, _ := strconv.ParseUint(op["log_time"].(string), 10, 64)
			ct, _ := strconv.ParseUint(op["create_time"].(string), 10, 64)
			d, _ := hex.DecodeString(op["data"].(string))
			atts = append(atts, &ref.Attachment{LogTime: lt, CreateTime: ct, Name: op["name"].(string), MediaType: op["media_type"].(string), Data: d})
		case "metadata":
			metas = append(metas, &ref.Metadata{Name: op["name"].(string), Metadata: ref.MapKV(op["metadata"].(map[string]string))})
		}
	}
	bu := readBundle(b)
	if bu.Err != "" {
		return "C16:py->go:read-error", "Go readers fail on a Python-written file: " + bu.Err
	}
	if bu.Header.Profile != s.Profile || bu.Header.Library != s.Library {
		return "C16:py->go:header", fmt.Sprintf("Go reads header %+v, Python wrote (%q,%q)", bu.Header, s.Profile, s.Library)
	}
	if len(bu.LexMsgs) != len(msgs) {
		return "C16:py->go:lexer-messages", fmt.Sprintf("Go lexer returned %d messages, Python wrote %d", len(bu.LexMsgs), len(msgs))
	}
	for i := range msgs {
		if !gow.EqualMessage(&bu.LexMsgs[i], msgs[i]) {
			return "C16:py->go:lexer-messages", fmt.Sprintf("Go lexer message %d differs from what Python wrote", i)
		}
	}
	if len(bu.LexAtt) != len(atts) || len(bu.LexMeta) != len(metas) {
		return "C16:py->go:lexer-attachments-metadata", fmt.Sprintf("Go lexer: %d attachments / %d metadata, Python wrote %d / %d", len(bu.LexAtt), len(bu.LexMeta), len(atts), len(metas))
	}
	for i := range atts {
		if !gow.EqualAttachment(&bu.LexAtt[i], atts[i]) {
			return "C16:py->go:lexer-attachments-metadata", "attachment differs"
		}
	}
	for i := range metas {
		if !gow.EqualMetadata(&bu.LexMeta[i], metas[i]) {
			return "C16:py->go:lexer-attachments-metadata", "metadata differs"
		}
	}
	// schema/channel records Python actually emitted must be read back identically
	for id := range emS {
		g, ok := bu.LexSch[uint16(id)]
		if !ok || schemas[uint16(id)] == nil || !g.Equal(schemas[uint16(id)]) {
			return "C16:py->go:lexer-schemas", fmt.Sprintf("schema %d read by Go differs from what Python wrote", id)
		}
	}
	for id := range emC {
		w := channels[uint16(id)]
		if w == nil || bu.LexChan[uint16(id)] != fmt.Sprintf("%d:%s:%s:%v", w.SchemaID, w.Topic, w.MessageEncoding, w.Metadata) {
			return "C16:py->go:lexer-channels", fmt.Sprintf("channel %d read by Go differs from what Python wrote", id)
		}
	}
	var want []gow.Triple
	for _, m := range msgs {
		c := channels[m.ChannelID]
		want = append(want, gow.Triple{S: schemas[c.SchemaID], C: c, M: m})
	}
	wk := keys(want)
	if !reflect.DeepEqual(bu.Scan, wk) && !(len(bu.Scan) == 0 && len(wk) == 0) {
		return "C16:py->go:scan", fmt.Sprintf("Go non-indexed iterator returned %d messages that differ from the %d Python wrote", len(bu.Scan), len(wk))
	}
	hasChunkIdx := false
	for _, n := range s.Options["index_types"].([]string) {
		hasChunkIdx = hasChunkIdx || n == "CHUNK"
	}
	indexable := hasChunkIdx && s.Options["use_chunking"].(bool) && s.Options["repeat_channels"].(bool) && s.Options["repeat_schemas"].(bool) && len(msgs) > 0
	for i, got := range [][]string{bu.IdxFile, bu.IdxLog, bu.IdxRev} {
		if bu.IdxErr[i] != "" {
			if indexable {
				return "C16:py->go:indexed-error", fmt.Sprintf("Go indexed read (order %d) fails on an indexed Python file: %s", i, bu.IdxErr[i])
			}
			continue
		}
		a, w := append([]string(nil), got...), append([]string(nil), wk...)
		if i > 0 {
			// time-ordered reads: the sequence must be monotone in log time, and the same multiset
			timeOf := map[string]uint64{}
			for k, t := range want {
				timeOf[wk[k]] = t.M.LogTime
			}
			for k := 1; k < len(got); k++ {
				t0, ok0 := timeOf[got[k-1]]
				t1, ok1 := timeOf[got[k]]
				if ok0 && ok1 && ((i == 1 && t1 < t0) || (i == 2 && t1 > t0)) {
					return "C16:py->go:indexed-order", fmt.Sprintf("Go indexed read (order %d) of a Python file is not sorted at position %d (%d after %d)", i, k, t1, t0)
				}
			}
			sort.Strings(a)
			sort.Strings(w)
		}
		if !reflect.DeepEqual(a, w) && !(len(a) == 0 && len(w) == 0) {
			s := "C16:py->go:indexed"
			if !indexable && len(a) < len(w) {
				s = "C16:py->go:indexed-silent-loss"
			}
			return s, fmt.Sprintf("Go indexed read (order %d) returned %d messages, Python wrote %d", i, len(a), len(w))
		}
	}
	if side.PyStats != nil {
		if bu.Stats == nil {
			return "C16:py->go:statistics", "Go Info has no statistics, Python wrote some"
		}
		g := bu.Stats
		per := map[string]any{}
		for k, v := range g.Per {
			per[strconv.Itoa(int(k))] = us(v)
		}
		wper, _ := side.PyStats["per_channel"].(map[string]any)
		for k, v := range wper {
			if v == "0" {
				delete(wper, k)
			}
		}
		gotS := map[string]any{"message_count": us(g.MessageCount), "schema_count": float64(g.SchemaCount), "channel_count": float64(g.ChannelCount), "attachment_count": float64(g.AttachmentCount),
			"metadata_count": float64(g.MetadataCount), "chunk_count": float64(g.ChunkCount), "start": us(g.Start), "end": us(g.End), "per_channel": per}
		if len(wper) == 0 {
			side.PyStats["per_channel"] = map[string]any{}
		}
		if !reflect.DeepEqual(gotS, side.PyStats) {
			return "C16:py->go:statistics", fmt.Sprintf("Go Info.Statistics %v, Python wrote %v", gotS, side.PyStats)
		}
	}
	hasIdx := func(n string) bool {
		for _, x := range s.Options["index_types"].([]string) {
			if x == n {
				return true
			}
		}
		return false
	}
	if hasIdx("ATTACHMENT") && len(bu.AttIdx) != len(atts) {
		return "C16:py->go:attachment-index", fmt.Sprintf("%d attachments reachable through the index, Python wrote %d", len(bu.AttIdx), len(atts))
	}
	if hasIdx("METADATA") && len(bu.MetaIdx) != len(metas) {
		return "C16:py->go:metadata-index", fmt.Sprintf("%d metadata records reachable through the index, Python wrote %d", len(bu.MetaIdx), len(metas))
	}
	return "", ""
}

var _ = errors.New
var _ = io.EOF
var _ = mcap.Version

// C16: Go and Python implementations read each other's files identically.
func C16(r *chk.Run) {
	if r.IsWorker() {
		return
	}
	r.Rule("Go->Python: every legal call sequence up to depth D over valid-UTF-8 alphabets x (a) ALL 512 flag combinations (SkipMagic off) x CRC x {unchunked, none/1, none/64} at small depth and (b) 16 flag settings at larger depth, written by the Go writer and read by python3 with /repo/python/mcap: StreamReader(validate_crcs) on every file, SeekingReader(validate_crcs) header/summary/iter_messages in 3 orders/attachments/metadata where the summary carries what they rely on; Python->Go: the Python Writer over (a) all 6144 option combinations x small workloads and (b) reduced options x deeper workloads and (c) two fixed workloads (attachments/metadata directly after registrations; multi-message chunks overlapping in time) under all 6144, read by the Go lexer (validating), both iterators in 3 orders, Info and random access; distinct = distinct files")
	r.Assume("compression is NONE (zstandard/lz4 are not installed for Python here); for schema/channel records the Python writer registers but never emits, 'what Python wrote' is taken from Python's own stream reader")
	tmp, err := os.MkdirTemp("", "c16-")
	if err != nil {
		r.HarnessError(err.Error())
		return
	}
	defer os.RemoveAll(tmp)
	thorough := r.Thorough()
	// ---------------- Go -> Python
	var cases []*g2pCase
	d1, d2 := 1, 3
	if thorough {
		d1, d2 = 2, 4
	}
	gen := func(all bool, depth int, a model.Alphabet) {
		for _, ch := range explore.Enumerate(func(x *explore.Ctx) {
			if all {
				gow.ChooseK1(x, (1<<gow.NFlags-1)&^gow.FSkipMagic)
			} else {
				x.Choose("cfg", 3)
				x.Choose("cfg", len(gow.FlagSets16))
				x.Bool("cfg")
			}
			model.GenUpTo(x, a, depth)
		}) {
			x := explore.Replay(ch)
			var cfg gow.Config
			if all {
				cfg = gow.ChooseK1(x, (1<<gow.NFlags-1)&^gow.FSkipMagic)
				if cfg.ChunkSize == 1<<40 {
					continue // three chunk modes: unchunked, none/1, none/64
				}
			} else {
				cm := gow.ChunkModesNone[x.Choose("cfg", 3)]
				cfg = gow.Config{Flags: gow.FlagSets16[x.Choose("cfg", len(gow.FlagSets16))] &^ gow.FSkipMagic, CRC: x.Bool("cfg"), Chunked: cm.Chunked, ChunkSize: cm.Size}
			}
			cases = append(cases, &g2pCase{cfg: cfg, c: model.GenUpTo(x, a, depth)})
		}
	}
	gen(true, d1, model.Reduced())
	if thorough {
		gen(false, d2, model.Reduced())
	} else {
		gen(false, d2, model.Tiny())
	}
	// a fixed multi-chunk workload under every one of the 3072 configurations
	for _, ch := range explore.Enumerate(func(x *explore.Ctx) { gow.ChooseK1(x, (1<<gow.NFlags-1)&^gow.FSkipMagic) }) {
		cfg := gow.ChooseK1(explore.Replay(ch), (1<<gow.NFlags-1)&^gow.FSkipMagic)
		if cfg.ChunkSize != 1<<40 {
			cases = append(cases, &g2pCase{cfg: cfg, c: rfWorkloads()[1]})
		}
	}
	for _, c := range emphasis()[:5] {
		for fl := 0; fl < 1<<9; fl += 37 {
			cases = append(cases, &g2pCase{cfg: gow.Config{Flags: fl, CRC: fl%2 == 0, Chunked: true, ChunkSize: 64}, c: c})
		}
	}
	gdir := filepath.Join(tmp, "g2p")
	_ = os.MkdirAll(gdir, 0o755)
	var wg sync.WaitGroup
	sem := make(chan struct{}, r.Workers)
	for i, cs := range cases {
		wg.Add(1)
		sem <- struct{}{}
		go func(i int, cs *g2pCase) {
			defer wg.Done()
			defer func() { <-sem }()
			res := gow.Write(cs.c, cs.cfg, nil, nil)
			for k := 0; k+9 <= len(res.Bytes); {
				// count chunk records by walking the top-level framing
				if k == 0 {
					k = 8
				}
				if k+9 > len(res.Bytes) {
					break
				}
				if res.Bytes[k] == ref.OpChunk {
					cs.nChunks++
				}
				n := int(uint64(res.Bytes[k+1]) | uint64(res.Bytes[k+2])<<8 | uint64(res.Bytes[k+3])<<16 | uint64(res.Bytes[k+4])<<24)
				if res.Bytes[k] == ref.OpFooter {
					break
				}
				k += 9 + n
			}
			_ = os.WriteFile(filepath.Join(gdir, fmt.Sprintf("%07d.mcap", i)), res.Bytes, 0o644)
		}(i, cs)
	}
	wg.Wait()
	type v struct{ sig, msg string; detail any }
	var viols []v
	seen := 0
	err = runPython("/verif/py/c16_read.py", []string{gdir}, r.Workers, func(line []byte) {
		var pr pyRead
		if err := json.Unmarshal(line, &pr); err != nil {
			return
		}
		idx, _ := strconv.Atoi(strings.TrimSuffix(pr.File, ".mcap"))
		seen++
		if sig, msg := g2pCheck(cases[idx], &pr); sig != "" {
			viols = append(viols, v{sig, msg + " — " + cases[idx].cfg.String() + " — " + cases[idx].c.String(), map[string]any{"direction": "go->py", "config": cases[idx].cfg.String(), "calls": cases[idx].c.String()}})
		}
	})
	if err != nil {
		r.HarnessError("python reader: " + err.Error())
		return
	}
	if seen != len(cases) {
		r.HarnessError(fmt.Sprintf("python read %d of %d files", seen, len(cases)))
		return
	}
	r.Count("go-writes-python-reads", int64(len(cases)), int64(len(cases)), int64(len(cases)), true, map[string]any{"files": len(cases)})
	r.Sample(map[string]string{"direction": "go->py", "config": cases[len(cases)/2].cfg.String(), "calls": cases[len(cases)/2].c.String()})
	_ = os.RemoveAll(gdir)
	// ---------------- Python -> Go
	var specs []*p2gSpec
	pd1, pd2 := 1, 3
	if thorough {
		pd1, pd2 = 2, 4
	}
	for _, ch := range explore.Enumerate(func(x *explore.Ctx) { genP2G(x, true, pd1) }) {
		specs = append(specs, genP2G(explore.Replay(ch), true, pd1))
	}
	for _, ch := range explore.Enumerate(func(x *explore.Ctx) { genP2G(x, false, pd2) }) {
		specs = append(specs, genP2G(explore.Replay(ch), false, pd2))
	}
	// a fixed workload (2 channels, one schemaless and message-less, 3 messages, attachment, metadata) under all 6144 option sets
	for _, ch := range explore.Enumerate(func(x *explore.Ctx) { genP2G(x, true, 0) }) {
		sp := genP2G(explore.Replay(ch), true, 0)
		sp.Ops = []map[string]any{
			{"k": "schema", "name": "s1", "encoding": "e", "data": "010203"},
			{"k": "channel", "topic": "t1 é", "enc": "x", "schema": 0, "metadata": map[string]string{"k": "v"}},
			{"k": "channel", "topic": "t0", "enc": "", "schema": -1, "metadata": map[string]string{}},
			{"k": "message", "channel": 0, "log_time": "5", "publish_time": "2", "data": "0102", "sequence": 1},
			{"k": "attachment", "create_time": "7", "log_time": "9", "name": "a", "media_type": "m", "data": "0a0b"},
			{"k": "message", "channel": 0, "log_time": "0", "publish_time": "0", "data": "", "sequence": 2},
			{"k": "metadata", "name": "md", "metadata": map[string]string{"a": "b"}},
			{"k": "message", "channel": 0, "log_time": us(model.MaxT), "publish_time": "1", "data": "ffee", "sequence": 3},
			{"k": "channel", "topic": "t2", "enc": "", "schema": -1, "metadata": map[string]string{}},
		}
		specs = append(specs, sp)
		// a second fixed workload: attachment and metadata directly after registrations (records
		// still pending in the writer), then messages with descending and repeated times so that
		// multi-message chunks overlap in time
		sp2 := genP2G(explore.Replay(ch), true, 0)
		msg := func(ch int, t uint64, data string, seq int) map[string]any {
			return map[string]any{"k": "message", "channel": ch, "log_time": us(t), "publish_time": us(t / 3), "data": data, "sequence": seq}
		}
		sp2.Ops = []map[string]any{
			{"k": "schema", "name": "s1", "encoding": "e", "data": "010203"},
			{"k": "channel", "topic": "t0", "enc": "x", "schema": 0, "metadata": map[string]string{"k": "v"}},
			{"k": "attachment", "create_time": "1", "log_time": "2", "name": "first", "media_type": "m", "data": "0a0b0c0d"},
			{"k": "metadata", "name": "md1", "metadata": map[string]string{"a": "b"}},
			{"k": "channel", "topic": "t1", "enc": "", "schema": -1, "metadata": map[string]string{}},
			{"k": "metadata", "name": "md2", "metadata": map[string]string{}},
			msg(1, 5, "aa0102", 1),
			{"k": "attachment", "create_time": "3", "log_time": "4", "name": "second", "media_type": "", "data": ""},
			msg(0, 0, "bb", 2),
			msg(0, model.MaxT, "cc00112233445566778899aabbccddeeff00112233445566778899aabbccddeeff", 3),
			msg(1, 0, "dd0102", 4),
			msg(0, 5, "ee", 5),
			msg(1, 0, "ff0102", 6),
			msg(0, 5, "ab", 7),
		}
		specs = append(specs, sp2)
	}
	pdir := filepath.Join(tmp, "p2g")
	_ = os.MkdirAll(pdir, 0o755)
	specFile := filepath.Join(tmp, "spec.jsonl")
	{
		f, _ := os.Create(specFile)
		w := bufio.NewWriter(f)
		for i, s := range specs {
			s.Name = fmt.Sprintf("%07d", i)
			b, _ := json.Marshal(s)
			w.Write(b)
			w.WriteByte('\n')
		}
		w.Flush()
		f.Close()
	}
	if dbg := os.Getenv("VERIF_C16_KEEP_SPEC"); dbg != "" {
		b, _ := os.ReadFile(specFile)
		_ = os.WriteFile(dbg, b, 0o644)
	}
	sides := make([]*p2gSide, len(specs))
	err = runPython("/verif/py/c16_write.py", []string{specFile, pdir}, r.Workers, func(line []byte) {
		var sd p2gSide
		if json.Unmarshal(line, &sd) == nil {
			i, _ := strconv.Atoi(sd.Name)
			sides[i] = &sd
		}
	})
	if err != nil {
		r.HarnessError("python writer: " + err.Error())
		return
	}
	var mu sync.Mutex
	refused := 0
	why := map[string]int{}
	selfRead := map[string]int{}
	for i := range specs {
		if sides[i] == nil {
			r.HarnessError(fmt.Sprintf("python writer produced no result for spec %d", i))
			return
		}
		wg.Add(1)
		sem <- struct{}{}
		go func(i int) {
			defer wg.Done()
			defer func() { <-sem }()
			if sides[i].Error != "" {
				mu.Lock()
				refused++
				why[clipS(sides[i].Error)]++
				mu.Unlock()
				return
			}
			if e := sides[i].PySelfReadError; e != "" {
				mu.Lock()
				k := e
				if j := strings.Index(k, ", expected"); j > 0 {
					k = k[:j]
				}
				selfRead[k]++
				mu.Unlock()
			}
			b, err := os.ReadFile(filepath.Join(pdir, specs[i].Name+".mcap"))
			if err != nil {
				return
			}
			if sig, msg := p2gCheck(specs[i], sides[i], b); sig != "" {
				ob, _ := json.Marshal(specs[i])
				mu.Lock()
				viols = append(viols, v{sig, msg + " — " + clipS(string(ob)), map[string]any{"direction": "py->go", "spec": specs[i]}})
				mu.Unlock()
			}
		}(i)
	}
	wg.Wait()
	r.Count("python-writes-go-reads", int64(len(specs)), int64(len(specs)), int64(len(specs)), true, map[string]any{"files": len(specs), "workloads_refused_by_python_writer": refused, "refusal_reasons": why, "observation_python_reader_rejects_python_written_file": selfRead})
	r.Sample(map[string]any{"direction": "py->go", "spec": specs[len(specs)/2]})
	r.Nontrivial(int64(len(cases) + len(specs)))
	sort.Slice(viols, func(i, j int) bool { return viols[i].sig < viols[j].sig })
	count := map[string]int64{}
	for _, x := range viols {
		count[x.sig]++
	}
	done := map[string]bool{}
	for _, x := range viols {
		if !done[x.sig] {
			done[x.sig] = true
			r.Violation("interop", x.sig, x.msg, x.detail, count[x.sig])
		}
	}
}
