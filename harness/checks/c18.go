package checks

import (
	"runtime/pprof"
	"bytes"
	"database/sql"
	"encoding/binary"
	"fmt"
	"os"
	"path/filepath"
	"sort"
	"strings"
	"time"

	mcap "github.com/foxglove/mcap/go/mcap"
	"github.com/foxglove/mcap/go/ros"
	_ "github.com/mattn/go-sqlite3"
	"github.com/pierrec/lz4/v4"

	"verif/harness/chk"
	"verif/harness/explore"
	"verif/harness/gow"
	"verif/harness/iso"
	"verif/harness/ref"
)

// ---------------------------------------------------------------- ROS 1 bag v2.0 encoder (harness-owned)

type bagConn struct {
	id              uint32
	topic, typ, md5 string
	def             string
	callerid        string
}

type bagMsg struct {
	conn        uint32
	secs, nsecs uint32
	data        []byte
	z, seed     int // size and pattern seed of a payload that fill() has yet to build
}

// fill builds the payloads genBag only described.
func (s *bagSpec) fill() *bagSpec {
	for i := range s.msgs {
		m := &s.msgs[i]
		if m.data == nil {
			m.data = make([]byte, m.z)
			for k := range m.data {
				m.data[k] = byte(k*7 + m.seed)
			}
		}
	}
	return s
}

type bagSpec struct {
	conns      []bagConn
	msgs       []bagMsg
	partition  [][]int // message indexes per chunk; nil = unchunked
	loose      []int   // with a partition: messages written outside any chunk, ahead of the chunks
	comp       string  // "none" | "lz4" (all chunks), unless comps is set
	comps      []string // per-chunk compression
	repeatConn bool    // repeat every connection record in every chunk
	// independent != 0: the bag is written by go-rosbag's Writer instead of the harness' encoder
	// (chunk size independent-1 selects {every record its own chunk, 100 bytes, 64 KiB}; comp applies)
	independent int
}

func bagField(name string, val []byte) []byte {
	var b []byte
	b = binary.LittleEndian.AppendUint32(b, uint32(len(name)+1+len(val)))
	b = append(b, name...)
	b = append(b, '=')
	return append(b, val...)
}
func u32b(v uint32) []byte { return binary.LittleEndian.AppendUint32(nil, v) }
func u64b(v uint64) []byte { return binary.LittleEndian.AppendUint64(nil, v) }

func bagRecord(header, data []byte) []byte {
	var b []byte
	b = binary.LittleEndian.AppendUint32(b, uint32(len(header)))
	b = append(b, header...)
	b = binary.LittleEndian.AppendUint32(b, uint32(len(data)))
	return append(b, data...)
}

func (c *bagConn) dataHeader() []byte {
	var d []byte
	d = append(d, bagField("topic", []byte(c.topic))...)
	d = append(d, bagField("type", []byte(c.typ))...)
	d = append(d, bagField("md5sum", []byte(c.md5))...)
	d = append(d, bagField("message_definition", []byte(c.def))...)
	if c.callerid != "" {
		d = append(d, bagField("callerid", []byte(c.callerid))...)
	}
	return d
}

func (c *bagConn) record() []byte {
	var h []byte
	h = append(h, bagField("op", []byte{7})...)
	h = append(h, bagField("conn", u32b(c.id))...)
	h = append(h, bagField("topic", []byte(c.topic))...)
	return bagRecord(h, c.dataHeader())
}

func (m *bagMsg) record() []byte {
	var h []byte
	h = append(h, bagField("op", []byte{2})...)
	h = append(h, bagField("conn", u32b(m.conn))...)
	h = append(h, bagField("time", append(u32b(m.secs), u32b(m.nsecs)...))...)
	return bagRecord(h, m.data)
}

var bagLZ4 *lz4.Writer

// encodeBag writes a bag; order returns the message indexes in file order.
func encodeBag(s *bagSpec) (out []byte, order []int) {
	out = append(out, "#ROSBAG V2.0\n"...)
	headerAt := len(out)
	out = append(out, make([]byte, 4096)...) // bag header record, filled in at the end
	connByID := map[uint32]*bagConn{}
	for i := range s.conns {
		connByID[s.conns[i].id] = &s.conns[i]
	}
	type chunkInfo struct {
		pos        uint64
		start, end uint64
		counts     map[uint32]uint32
		order      []uint32
	}
	var infos []chunkInfo
	written := map[uint32]bool{}
	if s.partition == nil {
		for i := range s.msgs {
			m := &s.msgs[i]
			if !written[m.conn] {
				written[m.conn] = true
				out = append(out, connByID[m.conn].record()...)
			}
			out = append(out, m.record()...)
			order = append(order, i)
		}
	} else {
		// messages written outside any chunk, ahead of the chunks (a bag may mix both)
		for _, i := range s.loose {
			m := &s.msgs[i]
			if !written[m.conn] {
				written[m.conn] = true
				out = append(out, connByID[m.conn].record()...)
			}
			out = append(out, m.record()...)
			order = append(order, i)
		}
	}
	for chi, ch := range s.partition {
		comp := s.comp
		if chi < len(s.comps) {
			comp = s.comps[chi]
		}
		if comp == "" {
			comp = "none"
		}
		var inner []byte
		ci := chunkInfo{pos: uint64(len(out)), counts: map[uint32]uint32{}}
		type ent struct {
			t   uint64
			off uint32
		}
		idx := map[uint32][]ent{}
		if s.repeatConn {
			for i := range s.conns {
				inner = append(inner, s.conns[i].record()...)
				written[s.conns[i].id] = true
			}
		}
		for k, mi := range ch {
			m := &s.msgs[mi]
			if !written[m.conn] {
				written[m.conn] = true
				inner = append(inner, connByID[m.conn].record()...)
			}
			t := uint64(m.secs)<<32 | uint64(m.nsecs)
			ns := uint64(m.secs)*1e9 + uint64(m.nsecs)
			if k == 0 || ns < ci.start {
				ci.start = ns
			}
			if k == 0 || ns > ci.end {
				ci.end = ns
			}
			if _, ok := ci.counts[m.conn]; !ok {
				ci.order = append(ci.order, m.conn)
			}
			ci.counts[m.conn]++
			idx[m.conn] = append(idx[m.conn], ent{t, uint32(len(inner))})
			inner = append(inner, m.record()...)
			order = append(order, mi)
		}
		stored := inner
		if comp == "lz4" {
			var buf bytes.Buffer
			if bagLZ4 == nil {
				bagLZ4 = lz4.NewWriter(&buf)
			} else {
				bagLZ4.Reset(&buf)
			}
			// readers size their block buffers from the frame header: 64 KiB blocks for small chunks
			// (the 4 MiB default, cleared on every decoder set-up, dominated the run), 4 MiB otherwise
			bs := lz4.Block64Kb
			if len(inner) > 64<<10 {
				bs = lz4.Block4Mb
			}
			_ = bagLZ4.Apply(lz4.BlockSizeOption(bs))
			_, _ = bagLZ4.Write(inner)
			_ = bagLZ4.Close()
			stored = buf.Bytes()
		}
		var h []byte
		h = append(h, bagField("op", []byte{5})...)
		h = append(h, bagField("compression", []byte(comp))...)
		h = append(h, bagField("size", u32b(uint32(len(inner))))...)
		out = append(out, bagRecord(h, stored)...)
		for _, c := range ci.order {
			var ih, d []byte
			ih = append(ih, bagField("op", []byte{4})...)
			ih = append(ih, bagField("ver", u32b(1))...)
			ih = append(ih, bagField("conn", u32b(c))...)
			ih = append(ih, bagField("count", u32b(uint32(len(idx[c]))))...)
			for _, e := range idx[c] {
				d = append(d, u32b(uint32(e.t>>32))...)
				d = append(d, u32b(uint32(e.t))...)
				d = append(d, u32b(e.off)...)
			}
			out = append(out, bagRecord(ih, d)...)
		}
		infos = append(infos, ci)
	}
	indexPos := uint64(len(out))
	for i := range s.conns {
		out = append(out, s.conns[i].record()...)
	}
	for _, ci := range infos {
		var h, d []byte
		h = append(h, bagField("op", []byte{6})...)
		h = append(h, bagField("ver", u32b(1))...)
		h = append(h, bagField("chunk_pos", u64b(ci.pos))...)
		toRos := func(ns uint64) []byte { return append(u32b(uint32(ns/1e9)), u32b(uint32(ns%1e9))...) }
		h = append(h, bagField("start_time", toRos(ci.start))...)
		h = append(h, bagField("end_time", toRos(ci.end))...)
		h = append(h, bagField("count", u32b(uint32(len(ci.order))))...)
		for _, c := range ci.order {
			d = append(d, u32b(c)...)
			d = append(d, u32b(ci.counts[c])...)
		}
		out = append(out, bagRecord(h, d)...)
	}
	var bh []byte
	bh = append(bh, bagField("op", []byte{3})...)
	bh = append(bh, bagField("index_pos", u64b(indexPos))...)
	bh = append(bh, bagField("conn_count", u32b(uint32(len(s.conns))))...)
	bh = append(bh, bagField("chunk_count", u32b(uint32(len(s.partition))))...)
	pad := bytes.Repeat([]byte{' '}, 4096-4-len(bh)-4)
	copy(out[headerAt:], bagRecord(bh, pad))
	return out, order
}

// ---------------------------------------------------------------- bag case generator

var c18Types = []struct{ typ, md5, def string }{
	{"std_msgs/String", "992ce8a1687cec8c8bd883ec73ca41d1", "string data\n"},
	{"std_msgs/String", "ffffffffffffffffffffffffffffffff", "string data\nint32 extra\n"}, // same type name, different md5
	// a definition with constants and a dependent type: '=' inside the value of a header field
	{"pkg/Two", "00000000000000000000000000000002", "byte DEBUG=1\nint32 a\nfloat64 b\npkg/Inner in\n================================================================================\nMSG: pkg/Inner\nint32 x=2\nstring s\n"},
}

// genBag enumerates bags in three families: mode 0 varies the content (ids, types, <=3 messages)
// under two fixed layouts; mode 1 varies the layout for contents of <=2 messages: every chunk
// partition x every per-chunk compression assignment x repeated connection records, and
// unchunked, x 3 MCAP writer configurations; mode 2 does the same for 3 messages (up to 3 chunks,
// so that e.g. lz4/none/lz4 sequences occur) with the message variants fixed.
func genBag(x *explore.Ctx, big bool) (*bagSpec, gow.Config) {
	s := &bagSpec{}
	mode := x.Choose("layout", 4)
	idSets := [][]uint32{{0}, {65535}, {0, 1}, {0, 1, 65535}}
	if mode == 3 {
		// bags written by go-rosbag: contents as in mode 1 (<=2 messages, all variants) plus the
		// fixed 3-message content, x chunk size x compression x 3 MCAP writer configurations
		s.independent = 1 + x.Choose("layout", 3)
		s.comp = []string{"none", "lz4"}[x.Choose("layout", 2)]
		s.partition = [][]int{} // chunked (by the writer's own rule)
	}
	if mode == 2 {
		idSets = idSets[2:]
	}
	ids := idSets[x.Choose("arg", len(idSets))]
	for k, id := range ids {
		ti := k % len(c18Types)
		if k == 1 && mode != 2 {
			ti = x.Choose("arg", len(c18Types)) // second connection: shared type/md5, same name other md5, or another type
		}
		t := c18Types[ti]
		c := bagConn{id: id, topic: fmt.Sprintf("/topic%d", k), typ: t.typ, md5: t.md5, def: t.def}
		if k == 1 {
			c.callerid = "/node"
			c.topic = "/topic0" // two connections on one topic
		}
		s.conns = append(s.conns, c)
	}
	type tz struct {
		secs, nsecs uint32
		z           int
	}
	variants := []tz{{0, 0, 0}, {1, 1, 5}, {4294967295, 999999999, 0}, {4294967295, 999999999, 5}}
	if big {
		variants = append(variants, tz{2, 0, 1<<20 + 7})
	}
	nm := 3
	switch mode {
	case 0:
		nm = x.Choose("op", 4)
	case 1:
		nm = x.Choose("op", 3)
	case 3:
		nm = 1 + x.Choose("op", 3)
	}
	for i := 0; i < nm; i++ {
		c := ids[x.Choose("arg", len(ids))]
		v := variants[(i+1)%len(variants)]
		if mode == 1 || (mode == 3 && nm < 3) || (mode == 0 && (nm < 3 || big)) {
			v = variants[x.Choose("arg", len(variants))]
		}
		// the payload is materialised by fill(): enumerating the case list must not allocate megabytes per case
		s.msgs = append(s.msgs, bagMsg{conn: c, secs: v.secs, nsecs: v.nsecs, z: v.z, seed: i + 1})
		x.Ops++
	}
	cfg := gow.Config{CRC: true, Chunked: true, ChunkSize: 64}
	if mode == 0 {
		if x.Bool("layout") {
			s.partition, s.comp = nil, "none"
		} else {
			all := []int{}
			for i := 0; i < nm; i++ {
				all = append(all, i)
			}
			s.partition, s.comps = [][]int{all}, []string{"lz4"}
		}
		return s, cfg
	}
	if mode == 3 {
		nc := 2 // the zstd configuration costs ~10 ms of encoder set-up per case: only with the fixed 3-message content
		if nm == 3 {
			nc = 3
		}
		wm := x.Choose("cfg", nc)
		return s, []gow.Config{{CRC: true}, {CRC: true, Chunked: true, ChunkSize: 64}, {CRC: false, Chunked: true, ChunkSize: 1 << 20, Compression: "zstd"}}[wm]
	}
	// chunk partition: unchunked, or every composition of the message sequence (one empty chunk when there are no messages)
	switch p := x.Choose("layout", 1+(1<<uint(maxInt(nm-1, 0)))); {
	case p == 0:
		s.partition = nil
	default:
		mask := p - 1
		var cur []int
		for i := 0; i < nm; i++ {
			if i > 0 && mask&(1<<uint(i-1)) != 0 {
				s.partition = append(s.partition, cur)
				cur = nil
			}
			cur = append(cur, i)
		}
		s.partition = append(s.partition, cur)
		for range s.partition {
			s.comps = append(s.comps, []string{"none", "lz4"}[x.Choose("layout", 2)])
		}
		s.repeatConn = x.Bool("layout")
	}
	wm := x.Choose("cfg", 3)
	cfg = []gow.Config{{CRC: true}, {CRC: true, Chunked: true, ChunkSize: 64}, {CRC: false, Chunked: true, ChunkSize: 1 << 20, Compression: "zstd"}}[wm]
	return s, cfg
}

func maxInt(a, b int) int {
	if a > b {
		return a
	}
	return b
}

// bagSweepCases: valid bags whose record parts cross the converter's fixed buffer sizes (1 KiB for
// record headers, 1 MiB for record data and chunk data, and twice those after a growth): the topic
// of a connection swept so that the record header length runs through 1000..1130 and 2030..2150,
// message data and message definitions of 1 MiB +- 8 and 2 MiB +- 4 bytes, each unchunked and inside
// an uncompressed chunk.
type bagSweep struct {
	topicLen, dataLen, defLen int
	chunked                   bool
	chunkLen                  int // > 0: the dataLen message stays outside any chunk and a chunk with a chunkLen message follows
}

func bagSweepCases() []bagSweep {
	var out []bagSweep
	for _, ch := range []bool{false, true} {
		for l := 940; l <= 1110; l++ {
			out = append(out, bagSweep{topicLen: l, dataLen: 5, chunked: ch})
		}
		for l := 1980; l <= 2130; l++ {
			out = append(out, bagSweep{topicLen: l, dataLen: 5, chunked: ch})
		}
		for d := -8; d <= 8; d++ {
			out = append(out, bagSweep{topicLen: 6, dataLen: 1<<20 + d, chunked: ch})
			out = append(out, bagSweep{topicLen: 6, dataLen: 5, defLen: 1<<20 + d, chunked: ch})
		}
		for d := -4; d <= 4; d++ {
			out = append(out, bagSweep{topicLen: 6, dataLen: 2<<20 + d, chunked: ch})
		}
	}
	// record data buffer and chunk buffer grow independently: a large message outside any chunk
	// followed by a large chunk, in both size orders
	for _, l := range []int{1<<20 + 9, 3 << 20} {
		for _, cl := range []int{1<<20 + 100, 2 << 20, 3<<20 + 64} {
			out = append(out, bagSweep{topicLen: 6, dataLen: l, chunked: true, chunkLen: cl})
		}
	}
	return out
}

func (c bagSweep) spec() *bagSpec {
	topic := "/" + strings.Repeat("t", c.topicLen-1)
	def := "string data\n"
	if c.defLen > 0 {
		def = strings.Repeat("#", c.defLen-len(def)) + def
	}
	s := &bagSpec{conns: []bagConn{{id: 0, topic: "/first", typ: "std_msgs/String", md5: "992ce8a1687cec8c8bd883ec73ca41d1", def: "string data\n"},
		{id: 1, topic: topic, typ: "pkg/Two", md5: "00000000000000000000000000000002", def: def}}}
	mk := func(n int, seed byte) []byte {
		d := make([]byte, n)
		for k := range d {
			d[k] = byte(k*7) + seed
		}
		return d
	}
	// a small message first (buffers at their initial size), then the record under test, then a small one again
	s.msgs = []bagMsg{{conn: 0, secs: 1, nsecs: 1, data: mk(3, 1)}, {conn: 1, secs: 2, nsecs: 0, data: mk(c.dataLen, 2)}, {conn: 0, secs: 3, nsecs: 0, data: mk(4, 3)}}
	if c.chunkLen > 0 {
		s.msgs = append(s.msgs, bagMsg{conn: 0, secs: 4, nsecs: 0, data: mk(c.chunkLen, 4)}, bagMsg{conn: 1, secs: 5, nsecs: 0, data: mk(6, 5)})
		s.loose, s.partition, s.comps = []int{0, 1, 2}, [][]int{{3, 4}}, []string{"none"}
		return s
	}
	if c.chunked {
		s.partition, s.comps = [][]int{{0, 1, 2}}, []string{"none"}
	}
	return s
}

// checkBagConversion converts and compares with the model; it returns "" or what is wrong.
func checkBagConversion(s *bagSpec, cfg gow.Config, bag []byte, order []int) (class, what string) {
	var out bytes.Buffer
	err := ros.Bag2MCAP(&out, bytes.NewReader(bag), cfg.Options())
	if err != nil {
		return "wrong", "valid bag rejected: " + err.Error()
	}
	f := ref.Decode(out.Bytes(), true)
	if probs := ref.Validate(f, cfg.Expect()); len(probs) > 0 {
		return "wrong", "output is not a valid MCAP: " + probs[0].Msg
	}
	flat := f.Flat()
	if len(flat) == 0 || flat[0].Header == nil || flat[0].Header.Profile != "ros1" {
		return "wrong", "header profile is not ros1"
	}
	connByID := map[uint32]*bagConn{}
	for i := range s.conns {
		connByID[s.conns[i].id] = &s.conns[i]
	}
	schemas := map[uint16]*ref.Schema{}
	channels := map[uint16]*ref.Channel{}
	var msgs []*ref.Message
	for i := range flat {
		switch flat[i].Op {
		case ref.OpSchema:
			schemas[flat[i].Schema.ID] = flat[i].Schema
		case ref.OpChannel:
			channels[flat[i].Channel.ID] = flat[i].Channel
		case ref.OpMessage:
			msgs = append(msgs, flat[i].Message)
		}
	}
	if len(msgs) != len(order) {
		return "wrong", fmt.Sprintf("%d messages in the bag, %d in the MCAP", len(order), len(msgs))
	}
	for k, mi := range order {
		bm, m := &s.msgs[mi], msgs[k]
		ns := uint64(bm.secs)*1e9 + uint64(bm.nsecs)
		if uint32(m.ChannelID) != bm.conn || !bytes.Equal(m.Data, bm.data) || m.LogTime != ns || m.PublishTime != ns {
			return "wrong", fmt.Sprintf("message %d: channel %d log %d publish %d %d bytes; bag has conn %d time %d %d bytes", k, m.ChannelID, m.LogTime, m.PublishTime, len(m.Data), bm.conn, ns, len(bm.data))
		}
		ch := channels[m.ChannelID]
		bc := connByID[bm.conn]
		if ch == nil {
			return "wrong", fmt.Sprintf("message %d has no channel", k)
		}
		if ch.Topic != bc.topic || ch.MessageEncoding != "ros1" {
			return "wrong", fmt.Sprintf("channel %d: topic %q encoding %q; connection has topic %q", ch.ID, ch.Topic, ch.MessageEncoding, bc.topic)
		}
		want := map[string]string{"topic": bc.topic, "md5sum": bc.md5}
		if bc.callerid != "" {
			want["callerid"] = bc.callerid
		}
		got := ref.KVMap(ch.Metadata)
		if len(got) != len(want) {
			return "wrong", fmt.Sprintf("channel %d metadata %v; connection header fields minus type and definition are %v", ch.ID, got, want)
		}
		for k2, v := range want {
			if got[k2] != v {
				return "wrong", fmt.Sprintf("channel %d metadata %v; expected %v", ch.ID, got, want)
			}
		}
		sc := schemas[ch.SchemaID]
		if sc == nil || sc.Name != bc.typ || sc.Encoding != "ros1msg" || string(sc.Data) != bc.def {
			return "wrong", fmt.Sprintf("channel %d: schema does not carry the connection's type and definition", ch.ID)
		}
	}
	// one schema per distinct (type, md5) among connections that were written
	distinct := map[string]bool{}
	for id := range channels {
		bc := connByID[uint32(id)]
		if bc != nil {
			distinct[bc.typ+"/"+bc.md5] = true
		}
	}
	if len(schemas) != len(distinct) {
		return "wrong", fmt.Sprintf("%d schemas for %d distinct type/md5 pairs", len(schemas), len(distinct))
	}
	return "ok", ""
}

// ---------------------------------------------------------------- db3

type db3Topic struct {
	id         int
	name, typ  string
	format     string
	qos        string
	isMessage  bool
}

type db3Msg struct {
	topic int // index into topics
	ts    int64
	data  []byte
}

type db3Spec struct {
	topics []db3Topic
	msgs   []db3Msg
	hasQoS bool
}

var db3Defs = map[string]string{
	"pkg_a/msg/Simple": "int32 a\nstring s",
	"pkg_a/msg/Nested": "Simple one\npkg_b/Other[] many\nfloat64 x\n",
	"pkg_b/msg/Other":  "# comment\nbool flag\npkg_a/Simple inner\n",
	// a homonym: the bare name Simple means pkg_b/Simple inside pkg_b and pkg_a/Simple inside pkg_a
	"pkg_b/msg/Simple": "bool other\n",
	"pkg_b/msg/Holder": "Simple mine\npkg_a/Simple theirs\n",
}

var db3TopicTypes = []string{"pkg_a/msg/Simple", "pkg_a/msg/Nested", "pkg_b/msg/Other", "pkg_b/msg/Holder", "pkg_a/srv/S_Event"}

// db3ExpectedSchema applies the concatenation rule of the converter's documentation.
func db3ExpectedSchema(typ string) string {
	out := db3Defs[typ]
	seen := map[string]bool{typ: true}
	queue := []string{typ}
	first := true
	for len(queue) > 0 {
		t := queue[0]
		queue = queue[1:]
		if !first {
			if !strings.HasSuffix(out, "\n") {
				out += "\n"
			}
			out += string(ros.MessageDefinitionSeparator) + "MSG: " + strings.Replace(t, "/msg/", "/", 1) + "\n" + db3Defs[t]
		}
		first = false
		pkg := strings.Split(t, "/")[0]
		for _, line := range strings.Split(db3Defs[t], "\n") {
			line = strings.TrimSpace(line)
			if line == "" || strings.HasPrefix(line, "#") {
				continue
			}
			ft := strings.Fields(line)[0]
			if i := strings.Index(ft, "["); i > 0 {
				ft = ft[:i]
			}
			if ros.Primitives[ft] {
				continue
			}
			q := pkg + "/msg/" + ft
			if parts := strings.Split(ft, "/"); len(parts) == 2 {
				q = parts[0] + "/msg/" + parts[1]
			}
			if !seen[q] {
				seen[q] = true
				queue = append(queue, q)
			}
		}
	}
	return out
}

var amentDir string

// ensureAment writes the ament index tree once per process.
func ensureAment() string {
	if amentDir != "" {
		return amentDir
	}
	d, err := os.MkdirTemp("", "c18-ament-")
	if err != nil {
		panic(err)
	}
	byPkg := map[string][]string{}
	for t, def := range db3Defs {
		parts := strings.Split(t, "/")
		byPkg[parts[0]] = append(byPkg[parts[0]], "msg/"+parts[2]+".msg")
		p := filepath.Join(d, "share", parts[0], "msg")
		_ = os.MkdirAll(p, 0o755)
		_ = os.WriteFile(filepath.Join(p, parts[2]+".msg"), []byte(def), 0o644)
	}
	idx := filepath.Join(d, "share", "ament_index", "resource_index", "rosidl_interfaces")
	_ = os.MkdirAll(idx, 0o755)
	for pkg, files := range byPkg {
		sort.Strings(files)
		_ = os.WriteFile(filepath.Join(idx, pkg), []byte(strings.Join(files, "\n")+"\n"), 0o644)
	}
	amentDir = d
	return d
}

func genDB3(x *explore.Ctx) (*db3Spec, gow.Config) {
	s := &db3Spec{hasQoS: x.Bool("cfg")}
	nt := 1 + x.Choose("op", 3)
	for i := 0; i < nt; i++ {
		typ := db3TopicTypes[x.Choose("arg", len(db3TopicTypes))]
		t := db3Topic{id: []int{1, 7, 65535}[i], name: fmt.Sprintf("/t%d", i), typ: typ, format: "cdr", isMessage: strings.Contains(typ, "/msg/")}
		if s.hasQoS {
			t.qos = fmt.Sprintf("- history: %d", i)
		}
		s.topics = append(s.topics, t)
	}
	nm := x.Choose("op", 4)
	for i := 0; i < nm; i++ {
		ti := x.Choose("arg", nt)
		ts := []int64{5, 1, 9000000000}[x.Choose("arg", 3)]
		s.msgs = append(s.msgs, db3Msg{topic: ti, ts: ts, data: []byte{byte(i + 1), byte(ti), 0xAB}})
		x.Ops++
	}
	cfg := []gow.Config{{CRC: true}, {CRC: true, Chunked: true, ChunkSize: 64}}[(nt+nm)%2]
	return s, cfg
}

func buildDB(s *db3Spec) (*sql.DB, error) {
	db, err := sql.Open("sqlite3", ":memory:")
	if err != nil {
		return nil, err
	}
	db.SetMaxOpenConns(1)
	q := "create table topics(id integer primary key, name text not null, type text not null, serialization_format text not null"
	if s.hasQoS {
		q += ", offered_qos_profiles text not null"
	}
	q += "); create table messages(id integer primary key, topic_id integer not null, timestamp integer not null, data blob not null);"
	if _, err := db.Exec(q); err != nil {
		return nil, err
	}
	for _, t := range s.topics {
		if s.hasQoS {
			_, err = db.Exec("insert into topics values(?,?,?,?,?)", t.id, t.name, t.typ, t.format, t.qos)
		} else {
			_, err = db.Exec("insert into topics values(?,?,?,?)", t.id, t.name, t.typ, t.format)
		}
		if err != nil {
			return nil, err
		}
	}
	for i, m := range s.msgs {
		if _, err := db.Exec("insert into messages values(?,?,?,?)", i+1, s.topics[m.topic].id, m.ts, m.data); err != nil {
			return nil, err
		}
	}
	return db, nil
}

func checkDB3Conversion(s *db3Spec, cfg gow.Config) (class, what string) {
	db, err := buildDB(s)
	if err != nil {
		return "harness", err.Error()
	}
	defer db.Close()
	var out bytes.Buffer
	err = ros.DB3ToMCAP(&out, db, cfg.Options(), []string{ensureAment()})
	nonMsgWithMessages := false
	for _, m := range s.msgs {
		if !s.topics[m.topic].isMessage {
			nonMsgWithMessages = true
		}
	}
	if err != nil {
		if nonMsgWithMessages {
			return "wrong-nonmsg-topic", "a message stored on a topic whose type is not a message type makes the whole conversion fail: " + err.Error()
		}
		return "wrong", "valid database rejected: " + err.Error()
	}
	f := ref.Decode(out.Bytes(), true)
	if probs := ref.Validate(f, cfg.Expect()); len(probs) > 0 {
		return "wrong", "output is not a valid MCAP: " + probs[0].Msg
	}
	flat := f.Flat()
	schemas := map[uint16]*ref.Schema{}
	channels := map[uint16]*ref.Channel{}
	var msgs []*ref.Message
	for i := range flat {
		switch flat[i].Op {
		case ref.OpSchema:
			schemas[flat[i].Schema.ID] = flat[i].Schema
		case ref.OpChannel:
			channels[flat[i].Channel.ID] = flat[i].Channel
		case ref.OpMessage:
			msgs = append(msgs, flat[i].Message)
		}
	}
	// expected messages: those of message-typed topics, by timestamp (ties free)
	type em struct {
		m    db3Msg
		used bool
	}
	var want []em
	for _, m := range s.msgs {
		if s.topics[m.topic].isMessage {
			want = append(want, em{m: m})
		}
	}
	if len(msgs) != len(want) {
		return "wrong", fmt.Sprintf("%d messages on message-typed topics, %d in the MCAP", len(want), len(msgs))
	}
	seq := map[uint16]uint32{}
	for i, m := range msgs {
		if i > 0 && m.LogTime < msgs[i-1].LogTime {
			return "wrong", "messages are not in timestamp order"
		}
		found := false
		for k := range want {
			w := &want[k]
			if !w.used && uint16(s.topics[w.m.topic].id) == m.ChannelID && uint64(w.m.ts) == m.LogTime && bytes.Equal(w.m.data, m.Data) {
				w.used, found = true, true
				break
			}
		}
		if !found || m.PublishTime != m.LogTime {
			return "wrong", fmt.Sprintf("message %d (channel %d, t=%d) is not one of the stored messages", i, m.ChannelID, m.LogTime)
		}
		if m.Sequence != seq[m.ChannelID] {
			return "wrong", fmt.Sprintf("message %d on channel %d has sequence %d, expected %d (per-topic numbering)", i, m.ChannelID, m.Sequence, seq[m.ChannelID])
		}
		seq[m.ChannelID]++
	}
	nMsgTopics := 0
	for _, t := range s.topics {
		if !t.isMessage {
			continue
		}
		nMsgTopics++
		ch := channels[uint16(t.id)]
		if ch == nil || ch.Topic != t.name || ch.MessageEncoding != t.format {
			return "wrong", fmt.Sprintf("topic %s has no matching channel", t.name)
		}
		md := ref.KVMap(ch.Metadata)
		if s.hasQoS && md["offered_qos_profiles"] != t.qos || !s.hasQoS && len(md) != 0 {
			return "wrong", fmt.Sprintf("channel %d metadata %v does not preserve the QoS profile %q", ch.ID, md, t.qos)
		}
		sc := schemas[ch.SchemaID]
		if sc == nil || sc.Name != t.typ || sc.Encoding != "ros2msg" || string(sc.Data) != db3ExpectedSchema(t.typ) {
			got := ""
			if sc != nil {
				got = string(sc.Data)
			}
			return "wrong", fmt.Sprintf("schema of topic %s (%s) is %q, the concatenation rule gives %q", t.name, t.typ, got, db3ExpectedSchema(t.typ))
		}
	}
	if len(channels) != nMsgTopics {
		return "wrong", fmt.Sprintf("%d channels for %d message-typed topics", len(channels), nMsgTopics)
	}
	return "ok", ""
}

// ---------------------------------------------------------------- corruptions of a valid bag

func c18SeedBag() []byte {
	s := &bagSpec{comp: "lz4", repeatConn: false,
		conns: []bagConn{{id: 0, topic: "/a", typ: "std_msgs/String", md5: "992ce8a1687cec8c8bd883ec73ca41d1", def: "string data\n"}, {id: 1, topic: "/b", typ: "pkg/Two", md5: "02", def: "int32 a\n", callerid: "/n"}},
		msgs:  []bagMsg{{conn: 0, secs: 1, nsecs: 2, data: []byte("hello")}, {conn: 1, secs: 3, nsecs: 4, data: []byte{1, 2, 3, 4}}, {conn: 0, secs: 5, nsecs: 6, data: []byte{}}},
		partition: [][]int{{0, 1}, {2}}}
	b, _ := encodeBag(s)
	return b
}

// bagPositions lists the offsets worth mutating: everything except the 4 KiB padding of the bag header.
func bagPositions(b []byte) []int {
	var out []int
	for i := 0; i < len(b); i++ {
		if i > 13+90 && i < 13+4096-8 {
			continue
		}
		out = append(out, i)
	}
	return out
}

// bagLegitBig reports whether a top-level header or data length of the mutated bag lies in
// [64 MiB, 2 GiB): the converter then legitimately allocates a buffer of that size (seconds of page
// clearing per case). Such mutants are run by the thorough tier only.
func bagLegitBig(b []byte) bool {
	off := 13
	for off+4 <= len(b) {
		hl := binary.LittleEndian.Uint32(b[off:])
		if hl >= 1<<26 && hl < 1<<31 {
			return true
		}
		off += 4
		if uint64(hl) > uint64(len(b)-off) {
			return false
		}
		off += int(hl)
		if off+4 > len(b) {
			return false
		}
		dl := binary.LittleEndian.Uint32(b[off:])
		if dl >= 1<<26 && dl < 1<<31 {
			return true
		}
		off += 4
		if uint64(dl) > uint64(len(b)-off) {
			return false
		}
		off += int(dl)
	}
	return false
}

func convertGuard(tag string, b []byte) iso.Outcome {
	// the property names crashes, process exit and stalls; it states no allocation ceiling for the converters
	return iso.Guard(tag, 1<<62, func(p any) string { return gow.PanicSite(p) }, func() error {
		var out bytes.Buffer
		return ros.Bag2MCAP(&out, bytes.NewReader(b), &mcap.WriterOptions{Chunked: true, ChunkSize: 1024})
	})
}

// C18: ROS bag and ROS 2 db3 conversion keeps every message, in order.
func C18(r *chk.Run) {
	r.Rule("(a) every generated bag: connection id sets from {0,1,65535}, shared and distinct (type, md5) pairs incl. the same type name with different md5, two connections on one topic, <=3 messages of size {0,5[,>1 MiB]} at times {0,(1,1),(2^32-1,999999999)}, every chunk partition x {none, lz4} x connection records repeated or not, and unchunked, x 3 MCAP writer configurations, plus the same contents written by go-rosbag's own Writer (chunking by size {every record, 100 B, 64 KiB} x {none, lz4}); plus length sweeps (record header through 1 KiB and 2 KiB, message data / message definition through 1 MiB and 2 MiB, unchunked and in a chunk, and a > 1 MiB message outside any chunk followed by a > 1 MiB chunk in both size orders: the converter's buffer sizes); the output is decoded by the reference decoder and compared with the bag; (b) every generated SQLite database: 1..3 topics over 4 message types (nested, shared sub-types, the same bare type name in two packages) and one non-message type, with/without the QoS column, <=3 messages incl. equal timestamps and topics without messages; (c) corruptions of a valid bag: every truncation position, and every byte position outside the header padding x widths 1/2/4 x hostile values, plus bad magic; all conversions run in isolated workers (process exit, fatal errors and stalls are observed); distinct = cases run")
	r.Assume("the harness' bag encoder follows the ROS bag v2.0 specification (every bag it emits is read back by go-rosbag's linear and index-based readers first; a disagreement aborts the run as a harness error); ament index trees and SQLite files are generated by the harness (github.com/mattn/go-sqlite3, in-memory)")
	big := r.Thorough()
	thorough := r.Thorough()
	// case lists are enumerated only by the processes that need them (parent, and the workers of that family)
	var bagCases, dbCases [][]int
	wn := os.Getenv("VERIF_ISO_WORKER")
	if wn == "" || wn == "C18/bags" {
		bagCases = explore.Enumerate(func(x *explore.Ctx) { genBag(x, big) })
	}
	if wn == "" || wn == "C18/db3" {
		dbCases = explore.Enumerate(func(x *explore.Ctx) { genDB3(x) })
	}
	sweeps := bagSweepCases()
	seed := c18SeedBag()
	pos := bagPositions(seed)
	vals := map[int][]uint64{1: {0, 1, 0x80, 0xff}, 2: {0, 0xffff, 0x8000}, 4: {0, 1, 1 << 16, 1<<31 - 1, 1 << 31, 1<<32 - 1}}
	if r.Thorough() {
		// 0x7f in the top byte of a length drives it just below 2^31: a legitimate ~2 GiB buffer, seconds per case
		vals[1] = append(vals[1], 0x7f)
		vals[2] = append(vals[2], 0x7fff)
	}
	if !r.Thorough() {
		vals[2] = nil // quick: widths 1 and 4 only
	}
	perPos := 0
	for _, w := range []int{1, 2, 4} {
		perPos += len(vals[w])
	}
	type fam struct {
		name string
		n    int
		fn   iso.Fn
		desc func(i int) any
	}
	fams := []fam{
		{"bags", len(bagCases), func(i int) []iso.Outcome {
			s, cfg := genBag(explore.Replay(bagCases[i]), big)
			s.fill()
			var bag []byte
			var order []int
			if s.independent != 0 {
				var err error
				bag, order, err = encodeBagIndependent(s, []int{0, 100, 1 << 16}[s.independent-1], s.comp)
				if err != nil {
					return []iso.Outcome{{Tag: "go-rosbag", Class: "harness", Site: "go-rosbag writer: " + err.Error()}}
				}
			} else {
				bag, order = encodeBag(s)
				if bad := crossCheckBag(s, bag, order); bad != "" {
					return []iso.Outcome{{Tag: "go-rosbag", Class: "harness", Site: bad}}
				}
			}
			var cls, what string
			o := iso.Guard("Bag2MCAP", 1<<62, func(p any) string { return gow.PanicSite(p) }, func() error {
				cls, what = checkBagConversion(s, cfg, bag, order)
				return nil
			})
			if o.Class == "ok" && cls != "ok" {
				o.Class, o.Site = cls, what
			}
			return []iso.Outcome{o}
		}, func(i int) any {
			s, cfg := genBag(explore.Replay(bagCases[i]), big)
			return map[string]any{"choices": bagCases[i], "bag": fmt.Sprintf("%+v", *s), "writer": cfg.String()}
		}},
		{"bag-length-sweeps", len(sweeps), func(i int) []iso.Outcome {
			sp := sweeps[i].spec()
			bag, order := encodeBag(sp)
			cfg := gow.Config{CRC: true, Chunked: true, ChunkSize: 4096}
			var cls, what string
			o := iso.Guard("Bag2MCAP", 1<<62, func(p any) string { return gow.PanicSite(p) }, func() error {
				cls, what = checkBagConversion(sp, cfg, bag, order)
				return nil
			})
			if o.Class == "ok" && cls != "ok" {
				o.Class, o.Site = cls, what
			}
			return []iso.Outcome{o}
		}, func(i int) any { return map[string]any{"sweep": fmt.Sprintf("%+v", sweeps[i])} }},
		{"db3", len(dbCases), func(i int) []iso.Outcome {
			s, cfg := genDB3(explore.Replay(dbCases[i]))
			var cls, what string
			o := iso.Guard("DB3ToMCAP", 1<<62, func(p any) string { return gow.PanicSite(p) }, func() error {
				cls, what = checkDB3Conversion(s, cfg)
				return nil
			})
			if o.Class == "ok" && cls != "ok" {
				o.Class, o.Site = cls, what
			}
			return []iso.Outcome{o}
		}, func(i int) any {
			s, cfg := genDB3(explore.Replay(dbCases[i]))
			return map[string]any{"choices": dbCases[i], "db": fmt.Sprintf("%+v", *s), "writer": cfg.String()}
		}},
		{"bag-truncations", len(seed) + 2, func(i int) []iso.Outcome {
			if i == len(seed) {
				return []iso.Outcome{convertGuard("Bag2MCAP/corrupt", append([]byte("#ROSBAG V1.2\n"), seed[13:]...))}
			}
			if i == len(seed)+1 {
				return []iso.Outcome{convertGuard("Bag2MCAP/corrupt", []byte("this is not a bag at all, but it is long enough"))}
			}
			return []iso.Outcome{convertGuard("Bag2MCAP/corrupt", seed[:i])}
		}, func(i int) any { return map[string]any{"truncate_at": i, "seed_len": len(seed)} }},
		{"bag-field-mutations", len(pos) * perPos, func(i int) []iso.Outcome {
			p, k := pos[i/perPos], i%perPos
			for _, w := range []int{1, 2, 4} {
				if k < len(vals[w]) {
					if p+w > len(seed) {
						return nil
					}
					b := append([]byte(nil), seed...)
					putLE(b[p:], w, vals[w][k])
					if bytes.Equal(b, seed) {
						return nil
					}
					if !thorough && bagLegitBig(b) {
						return []iso.Outcome{{Class: "deferred-legit-big-allocation"}}
					}
					return []iso.Outcome{convertGuard("Bag2MCAP/corrupt", b)}
				}
				k -= len(vals[w])
			}
			return nil
		}, func(i int) any { return map[string]any{"position": pos[i/perPos], "variant": i % perPos} }},
	}
	if one := os.Getenv("VERIF_C18_ONE"); one != "" && !iso.IsWorker() {
		var name string
		var idx int
		if k := strings.LastIndex(one, ":"); k > 0 {
			name = one[:k]
			fmt.Sscan(one[k+1:], &idx)
		}
		iso.FenceHeap()
		upto := idx
		if v := os.Getenv("VERIF_C18_UPTO"); v != "" {
			fmt.Sscan(v, &upto)
		}
		for _, f := range fams {
			if f.name == name {
				for i := idx; i <= upto; i++ {
					t0 := time.Now()
					o := f.fn(i)
					if d := time.Since(t0); d > 5*time.Millisecond || i == upto {
						fmt.Printf("%s #%d: %+v in %v\n   %v\n", name, i, o, d, f.desc(i))
					}
				}
			}
		}
		pprof.StopCPUProfile()
		os.Exit(0)
	}
	for _, f := range fams {
		replayIso(r, f.name, f.fn)
	}
	if r.Replay != nil {
		return
	}
	// weighted shares of the time budget, so that the large family cannot starve the others; what a
	// family leaves unused goes to the rest
	weight := map[string]int{"bags": 8, "bag-length-sweeps": 1, "db3": 2, "bag-truncations": 1, "bag-field-mutations": 2}
	weightLeft := 0
	for _, f := range fams {
		weightLeft += weight[f.name]
	}
	for _, f := range fams {
		famDeadline := r.Deadline
		if left := time.Until(r.Deadline); left > 0 && weightLeft > 0 {
			famDeadline = time.Now().Add(time.Duration(float64(left) * float64(weight[f.name]) / float64(weightLeft)))
		}
		weightLeft -= weight[f.name]
		if !r.TimeLeft() && !iso.IsWorker() {
			r.Count(f.name, 0, 0, 0, false, map[string]any{"skipped": "internal deadline"})
			continue
		}
		batch := f.n/(r.Workers*4) + 1
		if batch > 256 {
			batch = 256 // the deadline is looked at between batches
		}
		t0 := time.Now()
		res := iso.Run("C18/"+f.name, f.n, batch, r.Workers, 30*time.Second, famDeadline, f.fn)
		r.Count(f.name, res.Calls, res.Inputs, res.Calls, res.Exhaustive, map[string]any{"cases": f.n, "outcome_classes": res.ByClass, "wall_s": time.Since(t0).Seconds(), "worker_restarts": res.Restarts})
		// a bag the harness generated that go-rosbag reads differently is an error of the harness, not a violation
		kept := res.Bad[:0]
		for _, b := range res.Bad {
			if b.Class == "harness" {
				r.HarnessError(fmt.Sprintf("bag case #%d: the harness' bag encoder and go-rosbag disagree: %s", b.Index, b.Site))
				continue
			}
			kept = append(kept, b)
		}
		res.Bad = kept
		// narrow signatures: "wrong" outcomes are grouped by their first words; log timestamps are dropped
		for i := range res.Bad {
			if strings.HasPrefix(res.Bad[i].Class, "exit:") && len(res.Bad[i].Site) > 20 && res.Bad[i].Site[4] == '/' && res.Bad[i].Site[10] == ' ' {
				res.Bad[i].Site = res.Bad[i].Site[20:]
			}
			if strings.HasPrefix(res.Bad[i].Class, "wrong") {
				w := strings.Fields(res.Bad[i].Site)
				if len(w) > 5 {
					w = w[:5]
				}
				res.Bad[i].Site = strings.Join(w, " ")
			}
		}
		reportBad(r, "C18", f.name, res, f.desc)
	}
	if amentDir != "" {
		_ = os.RemoveAll(amentDir)
	}
	r.Nontrivial(0)
}
