package checks

import (
	"sync"
	"bytes"
	"errors"
	"fmt"
	"io"
	"reflect"
	"sort"

	mcap "github.com/foxglove/mcap/go/mcap"

	"verif/harness/chk"
	"verif/harness/explore"
	"verif/harness/gow"
	"verif/harness/ref"
)

// bundle is everything the Go readers report for one file.
type bundle struct {
	Err      string
	Header   ref.Header
	LexMsgs  []ref.Message
	LexAtt   []ref.Attachment
	LexMeta  []ref.Metadata
	LexSch   map[uint16]ref.Schema
	LexChan  map[uint16]string
	Scan     []string
	ScanLate *[]string // non-indexed read restricted to log times >= the latest one
	// default (index-preferring) read restricted to log times < the latest one: nil = not run, error kept apart
	IdxBefore    *[]string
	IdxBeforeErr string
	ScanMeta int
	IdxFile  []string
	IdxLog   []string
	IdxRev   []string
	IdxErr   [3]string
	Stats    *flatStats
	NChan    int
	NSch     int
	NChunk   int
	AttIdx   []string
	MetaIdx  []string
	idxLogT  []gow.Triple
	idxRevT  []gow.Triple
	// default-options read restricted to one topic, for every topic of the scan in sorted order
	Topics   []string
	TopicGot [][]string
	TopicErr []string
	// the same selection read in log-time order (messages, for the monotonicity check)
	TopicLog    [][]gow.Triple
	TopicLogErr []string
}

func tripleKey(t gow.Triple) string {
	s := "-"
	if t.S != nil {
		s = fmt.Sprintf("%d:%s:%s:%x", t.S.ID, t.S.Name, t.S.Encoding, t.S.Data)
	}
	return fmt.Sprintf("%s|%d:%d:%s:%s:%v|%d:%d:%d:%d:%x", s, t.C.ID, t.C.SchemaID, t.C.Topic, t.C.MessageEncoding, t.C.Metadata, t.M.ChannelID, t.M.Sequence, t.M.LogTime, t.M.PublishTime, t.M.Data)
}

func keys(ts []gow.Triple) []string {
	out := make([]string, len(ts))
	for i, t := range ts {
		out[i] = tripleKey(t)
	}
	return out
}

// readBundle runs every reader over b.
func readBundle(b []byte) *bundle {
	bu := &bundle{LexSch: map[uint16]ref.Schema{}, LexChan: map[uint16]string{}}
	lr := gow.Lex(bytes.NewReader(b), gow.LexOpts{Validate: true, AttCRC: true})
	if lr.Panic != "" {
		bu.Err = "lexer panic: " + lr.Panic
		return bu
	}
	if lr.Unstable != "" {
		bu.Err = "lexer: " + lr.Unstable
		return bu
	}
	if !errors.Is(lr.Err, io.EOF) {
		bu.Err = fmt.Sprintf("lexer: %v", lr.Err)
		return bu
	}
	for _, t := range lr.Toks {
		r := ref.Rec{Body: t.Body}
		switch t.Type {
		case mcap.TokenHeader:
			r.Op = ref.OpHeader
			ref.ParseBody(&r)
			if r.Header != nil {
				bu.Header = *r.Header
			}
		case mcap.TokenSchema:
			r.Op = ref.OpSchema
			ref.ParseBody(&r)
			if r.Err != "" {
				bu.Err = "schema token: " + r.Err
				return bu
			}
			if old, ok := bu.LexSch[r.Schema.ID]; ok && !old.Equal(r.Schema) {
				bu.Err = "schema redefinition differs"
				return bu
			}
			bu.LexSch[r.Schema.ID] = *r.Schema
		case mcap.TokenChannel:
			r.Op = ref.OpChannel
			ref.ParseBody(&r)
			if r.Err != "" {
				bu.Err = "channel token: " + r.Err
				return bu
			}
			k := fmt.Sprintf("%d:%s:%s:%v", r.Channel.SchemaID, r.Channel.Topic, r.Channel.MessageEncoding, r.Channel.Metadata)
			if old, ok := bu.LexChan[r.Channel.ID]; ok && old != k {
				bu.Err = "channel redefinition differs"
				return bu
			}
			bu.LexChan[r.Channel.ID] = k
		case mcap.TokenMessage:
			r.Op = ref.OpMessage
			ref.ParseBody(&r)
			if r.Err != "" {
				bu.Err = "message token: " + r.Err
				return bu
			}
			bu.LexMsgs = append(bu.LexMsgs, *r.Message)
		case gow.TokAttachment:
			if t.ComputedCRC != t.ParsedCRC {
				bu.Err = "attachment CRC mismatch"
				return bu
			}
			a := *t.Att
			a.CRC = 0
			bu.LexAtt = append(bu.LexAtt, a)
		case mcap.TokenMetadata:
			r.Op = ref.OpMetadata
			ref.ParseBody(&r)
			if r.Err != "" {
				bu.Err = "metadata token: " + r.Err
				return bu
			}
			bu.LexMeta = append(bu.LexMeta, *r.Metadata)
		}
	}
	// every top-level record through the library's Parse* functions, against the from-the-spec decoder
	if d := libParseDiff(b); d != "" {
		bu.Err = "Parse*: " + d
		return bu
	}
	scan := gow.Iterate(bytes.NewReader(b), gow.NextIntoNil, true, nil, 0, mcap.UsingIndex(false))
	if scan.Panic != "" || scan.Failed() != nil {
		bu.Err = fmt.Sprintf("scan: %v %s", scan.Failed(), scan.Panic)
		return bu
	}
	bu.Scan = keys(scan.Triples)
	bu.ScanMeta = len(scan.Meta)
	if len(scan.Triples) > 0 {
		var late uint64
		for _, t := range scan.Triples {
			if t.M.LogTime > late {
				late = t.M.LogTime
			}
		}
		ls := gow.Iterate(bytes.NewReader(b), gow.NextIntoNil, false, nil, 0, mcap.UsingIndex(false), mcap.AfterNanos(late))
		if ls.Panic != "" || ls.Failed() != nil {
			bu.Err = fmt.Sprintf("time-bounded scan: %v %s", ls.Failed(), ls.Panic)
			return bu
		}
		k := keys(ls.Triples)
		bu.ScanLate = &k
		// the end bound is exclusive: a window ending exactly at the latest log time (which is some
		// chunk's end time) leaves out the messages logged at that time
		ib := gow.Iterate(bytes.NewReader(b), gow.NextIntoNil, false, nil, 0, mcap.BeforeNanos(late))
		switch {
		case ib.Panic != "":
			bu.IdxBeforeErr = "panic: " + ib.Panic
		case ib.Failed() != nil:
			bu.IdxBeforeErr = ib.Failed().Error()
		default:
			kb := keys(ib.Triples)
			bu.IdxBefore = &kb
		}
	}
	for i, o := range []mcap.ReadOrder{mcap.FileOrder, mcap.LogTimeOrder, mcap.ReverseLogTimeOrder} {
		ir := gow.Iterate(bytes.NewReader(b), gow.NextIntoNil, false, nil, 0, mcap.UsingIndex(true), mcap.InOrder(o))
		if ir.Panic != "" {
			bu.IdxErr[i] = "panic: " + ir.Panic
			continue
		}
		if err := ir.Failed(); err != nil {
			bu.IdxErr[i] = err.Error()
			continue
		}
		switch i {
		case 0:
			bu.IdxFile = keys(ir.Triples)
		case 1:
			bu.IdxLog, bu.idxLogT = keys(ir.Triples), ir.Triples
		case 2:
			bu.IdxRev, bu.idxRevT = keys(ir.Triples), ir.Triples
		}
	}
	{
		seen := map[string]bool{}
		for _, t := range scan.Triples {
			if !seen[t.C.Topic] {
				seen[t.C.Topic] = true
				bu.Topics = append(bu.Topics, t.C.Topic)
			}
		}
		sort.Strings(bu.Topics)
		for _, topic := range bu.Topics {
			tr := gow.Iterate(bytes.NewReader(b), gow.NextIntoNil, false, nil, 0, mcap.WithTopics([]string{topic}))
			switch {
			case tr.Panic != "":
				bu.TopicErr, bu.TopicGot = append(bu.TopicErr, "panic: "+tr.Panic), append(bu.TopicGot, nil)
			case tr.Failed() != nil:
				bu.TopicErr, bu.TopicGot = append(bu.TopicErr, tr.Failed().Error()), append(bu.TopicGot, nil)
			default:
				bu.TopicErr, bu.TopicGot = append(bu.TopicErr, ""), append(bu.TopicGot, keys(tr.Triples))
			}
			tl := gow.Iterate(bytes.NewReader(b), gow.NextIntoNil, false, nil, 0, mcap.WithTopics([]string{topic}), mcap.InOrder(mcap.LogTimeOrder))
			switch {
			case tl.Panic != "":
				bu.TopicLogErr, bu.TopicLog = append(bu.TopicLogErr, "panic: "+tl.Panic), append(bu.TopicLog, nil)
			case tl.Failed() != nil:
				bu.TopicLogErr, bu.TopicLog = append(bu.TopicLogErr, tl.Failed().Error()), append(bu.TopicLog, nil)
			default:
				bu.TopicLogErr, bu.TopicLog = append(bu.TopicLogErr, ""), append(bu.TopicLog, tl.Triples)
			}
		}
	}
	func() {
		defer func() {
			if p := recover(); p != nil {
				bu.Err = "info/random access panic: " + gow.PanicSite(p)
			}
		}()
		rd, err := mcap.NewReader(bytes.NewReader(b))
		if err != nil {
			bu.Err = "NewReader: " + err.Error()
			return
		}
		defer rd.Close()
		info, err := rd.Info()
		if err != nil {
			bu.Err = "Info: " + err.Error()
			return
		}
		if info.Statistics != nil {
			fs := fromGoStats(info.Statistics)
			bu.Stats = &fs
		}
		bu.NChan, bu.NSch, bu.NChunk = len(info.Channels), len(info.Schemas), len(info.ChunkIndexes)
		for _, ai := range info.AttachmentIndexes {
			ar, err := rd.GetAttachmentReader(ai.Offset)
			if err != nil {
				bu.Err = "GetAttachmentReader: " + err.Error()
				return
			}
			data, err := io.ReadAll(ar.Data())
			if err != nil {
				bu.Err = "attachment data: " + err.Error()
				return
			}
			cc, _ := ar.ComputedCRC()
			pc, _ := ar.ParsedCRC()
			bu.AttIdx = append(bu.AttIdx, fmt.Sprintf("%d:%d:%s:%s:%x:%v|idx %d:%d:%d:%s:%s", ar.LogTime, ar.CreateTime, ar.Name, ar.MediaType, data, cc == pc, ai.LogTime, ai.CreateTime, ai.DataSize, ai.Name, ai.MediaType))
		}
		for _, mi := range info.MetadataIndexes {
			md, err := rd.GetMetadata(mi.Offset)
			if err != nil {
				bu.Err = "GetMetadata: " + err.Error()
				return
			}
			bu.MetaIdx = append(bu.MetaIdx, fmt.Sprintf("%s:%v|idx %s", md.Name, ref.MapKV(md.Metadata), mi.Name))
		}
	}()
	return bu
}

// diffBundle names the first component in which two bundles differ ("" = equal).
func diffBundle(a, b *bundle) string {
	switch {
	case a.Err != b.Err:
		return fmt.Sprintf("error: %q vs %q", a.Err, b.Err)
	case a.Header != b.Header:
		return "header"
	case !reflect.DeepEqual(a.LexMsgs, b.LexMsgs):
		return "lexer messages"
	case !reflect.DeepEqual(a.LexAtt, b.LexAtt):
		return "lexer attachments"
	case !reflect.DeepEqual(a.LexMeta, b.LexMeta):
		return "lexer metadata"
	case !reflect.DeepEqual(a.LexSch, b.LexSch):
		return "lexer schemas"
	case !reflect.DeepEqual(a.LexChan, b.LexChan):
		return "lexer channels"
	case !reflect.DeepEqual(a.Scan, b.Scan):
		return "non-indexed messages"
	case !reflect.DeepEqual(a.ScanLate, b.ScanLate):
		return "non-indexed messages in a time window"
	case !reflect.DeepEqual(a.IdxBefore, b.IdxBefore) || a.IdxBeforeErr != b.IdxBeforeErr:
		return "default read with an end bound"
	case a.ScanMeta != b.ScanMeta:
		return "metadata callback count"
	case a.IdxErr != b.IdxErr:
		return fmt.Sprintf("indexed read errors %q vs %q", a.IdxErr, b.IdxErr)
	case !reflect.DeepEqual(a.IdxFile, b.IdxFile):
		return "indexed messages (file order)"
	case !reflect.DeepEqual(a.IdxLog, b.IdxLog):
		return "indexed messages (log-time order)"
	case !reflect.DeepEqual(a.IdxRev, b.IdxRev):
		return "indexed messages (reverse order)"
	case !reflect.DeepEqual(a.Stats, b.Stats):
		return fmt.Sprintf("Info statistics %+v vs %+v", a.Stats, b.Stats)
	case a.NChan != b.NChan || a.NSch != b.NSch || a.NChunk != b.NChunk:
		return fmt.Sprintf("Info listings (%d,%d,%d) vs (%d,%d,%d)", a.NChan, a.NSch, a.NChunk, b.NChan, b.NSch, b.NChunk)
	case !reflect.DeepEqual(a.TopicErr, b.TopicErr) || !reflect.DeepEqual(a.TopicGot, b.TopicGot):
		return "topic-filtered default read"
	case !reflect.DeepEqual(a.AttIdx, b.AttIdx):
		return "attachments via index"
	case !reflect.DeepEqual(a.MetaIdx, b.MetaIdx):
		return "metadata via index"
	}
	return ""
}

// ---------------------------------------------------------------- logical contents for C11 / C12

type logical struct {
	name     string
	schemas  []*ref.Schema
	channels []*ref.Channel
	msgs     []*ref.Message
	att      *ref.Attachment
	meta     *ref.Metadata
}

func logicalContents() []*logical {
	s1 := &ref.Schema{ID: 1, Name: "S", Encoding: "e", Data: []byte{7, 8}}
	c1 := &ref.Channel{ID: 1, SchemaID: 1, Topic: "a", MessageEncoding: "x", Metadata: []ref.KV{{K: "k", V: "v"}}}
	c2 := &ref.Channel{ID: 2, SchemaID: 0, Topic: "b", MessageEncoding: "y"}
	m := func(ch uint16, seq uint32, t uint64, z int) *ref.Message {
		d := make([]byte, z)
		for i := range d {
			d[i] = byte(int(seq)*16 + i)
		}
		return &ref.Message{ChannelID: ch, Sequence: seq, LogTime: t, PublishTime: t + 1, Data: d}
	}
	a := &ref.Attachment{LogTime: 4, CreateTime: 5, Name: "att", MediaType: "m/t", Data: []byte{1, 2, 3, 4, 5}}
	d := &ref.Metadata{Name: "md", Metadata: []ref.KV{{K: "a", V: "b"}, {K: "é", V: ""}}}
	return []*logical{
		{"4msg-2chan", []*ref.Schema{s1}, []*ref.Channel{c1, c2}, []*ref.Message{m(1, 1, 5, 3), m(2, 2, 3, 0), m(1, 3, 3, 9), m(2, 4, 9, 2)}, a, d},
		{"3msg-1chan", []*ref.Schema{s1}, []*ref.Channel{c1}, []*ref.Message{m(1, 1, 2, 2), m(1, 2, 2, 2), m(1, 3, 1, 2)}, nil, d},
		{"1msg-schemaless", nil, []*ref.Channel{c2}, []*ref.Message{m(2, 1, 0, 4)}, a, nil},
		// a first chunk can span two later, mutually disjoint ones: partition {1,9},{3},{5}
		// (b1 a8 | b2 | a3: under a selection of topic a the first chunk contributes only its last message,
		// the second chunk nothing - it is only pruned when message indexes say so - and the third is still due)
		{"4msg-spanning", []*ref.Schema{s1}, []*ref.Channel{c1, c2}, []*ref.Message{m(2, 1, 1, 2), m(1, 2, 8, 2), m(2, 3, 2, 2), m(1, 4, 3, 2)}, nil, nil},
	}
}

func (l *logical) chanByID(id uint16) *ref.Channel {
	for _, c := range l.channels {
		if c.ID == id {
			return c
		}
	}
	return nil
}

// defsFor returns the schema+channel records needed by message m (placement 3) or all (others).
func (l *logical) defs(only *ref.Message) []ref.RawRec {
	var out []ref.RawRec
	for _, s := range l.schemas {
		if only == nil || l.chanByID(only.ChannelID).SchemaID == s.ID {
			out = append(out, ref.RSchema(s))
		}
	}
	for _, c := range l.channels {
		if only == nil || only.ChannelID == c.ID {
			out = append(out, ref.RChannel(c))
		}
	}
	return out
}

// layoutSpec is one point of the layout space of C12.
type layoutSpec struct {
	partition [][]int // chunks as lists of message indexes; nil = unchunked
	comps     []string
	placement int // 0 top level before first chunk | 1 inside first chunk | 2 repeated in every chunk | 3 before every message
	order     []byte
	opt       int // bit set of optional parts
	noRepeat  int // bit 0: the summary does not repeat schema records; bit 1: nor channel records
}

const (
	oMsgIndex = 1 << iota
	oStats
	oSumOffsets
	oAttIndex
	oMetaIndex
	oChunkCRC
	oDataCRC
	oSummaryCRC
	nOpt = 8
)

func (l *logical) encode(ls *layoutSpec) []byte {
	var items []ref.Item
	add := func(r ref.RawRec) { rr := r; items = append(items, ref.Item{Rec: &rr}) }
	if l.att != nil {
		add(ref.RAttachment(l.att))
	}
	if ls.partition == nil {
		for _, r := range l.defs(nil) {
			if ls.placement != 3 {
				add(r)
			}
		}
		for _, m := range l.msgs {
			if ls.placement == 3 {
				for _, r := range l.defs(m) {
					add(r)
				}
			}
			add(ref.RMessage(m))
		}
	} else {
		if ls.placement == 0 {
			for _, r := range l.defs(nil) {
				add(r)
			}
		}
		for ci, ch := range ls.partition {
			spec := &ref.ChunkSpec{Compression: ls.comps[ci]}
			if (ls.placement == 1 && ci == 0) || ls.placement == 2 {
				spec.Recs = append(spec.Recs, l.defs(nil)...)
			}
			for _, mi := range ch {
				if ls.placement == 3 {
					spec.Recs = append(spec.Recs, l.defs(l.msgs[mi])...)
				}
				spec.Recs = append(spec.Recs, ref.RMessage(l.msgs[mi]))
			}
			items = append(items, ref.Item{Chunk: spec})
		}
	}
	if l.meta != nil {
		add(ref.RMetadata(l.meta))
	}
	lay := ref.Layout{
		MessageIndex: ls.opt&oMsgIndex != 0, ChunkIndex: true, RepeatSchemas: ls.noRepeat&1 == 0, RepeatChannels: ls.noRepeat&2 == 0,
		Statistics: ls.opt&oStats != 0, SummaryOffsets: ls.opt&oSumOffsets != 0, AttachmentIndex: ls.opt&oAttIndex != 0, MetadataIndex: ls.opt&oMetaIndex != 0,
		ChunkCRC: ls.opt&oChunkCRC != 0, DataCRC: ls.opt&oDataCRC != 0, SummaryCRC: ls.opt&oSummaryCRC != 0, GroupOrder: ls.order,
	}
	return ref.EncodeFile(&ref.Header{Profile: "p", Library: "lib"}, items, lay).Bytes
}

// partitions returns every composition of n messages into chunks, each also with one empty chunk
// inserted at every position, plus nil (unchunked).
func partitions(n int) [][][]int {
	var out [][][]int
	out = append(out, nil)
	var comps [][][]int
	for mask := 0; mask < 1<<(n-1); mask++ {
		var p [][]int
		cur := []int{0}
		for i := 1; i < n; i++ {
			if mask&(1<<(i-1)) != 0 {
				p = append(p, cur)
				cur = nil
			}
			cur = append(cur, i)
		}
		p = append(p, cur)
		comps = append(comps, p)
	}
	for _, p := range comps {
		out = append(out, p)
		for pos := 0; pos <= len(p); pos++ {
			q := append([][]int{}, p[:pos]...)
			q = append(q, []int{})
			q = append(q, p[pos:]...)
			out = append(out, q)
		}
	}
	return out
}

func permutations(a []byte) [][]byte {
	if len(a) <= 1 {
		return [][]byte{append([]byte(nil), a...)}
	}
	var out [][]byte
	for i := range a {
		rest := append(append([]byte(nil), a[:i]...), a[i+1:]...)
		for _, p := range permutations(rest) {
			out = append(out, append([]byte{a[i]}, p...))
		}
	}
	return out
}

var allGroupOrders = permutations(ref.GoGroupOrder)

// c12Oracle checks one layout's bundle against the logical content.
func c12Oracle(l *logical, ls *layoutSpec, bu *bundle) *explore.Verdict {
	if bu.Err != "" {
		return vio("C12:read-error", "%s", bu.Err)
	}
	if len(bu.LexMsgs) != len(l.msgs) {
		return vio("C12:lexer-content", "lexer returned %d of %d messages", len(bu.LexMsgs), len(l.msgs))
	}
	for i, m := range l.msgs {
		if !gow.EqualMessage(&bu.LexMsgs[i], m) {
			return vio("C12:lexer-content", "lexer message %d differs", i)
		}
	}
	if (l.att != nil) != (len(bu.LexAtt) == 1) || (l.att != nil && !gow.EqualAttachment(&bu.LexAtt[0], l.att)) {
		return vio("C12:lexer-content", "lexer attachments differ")
	}
	if (l.meta != nil) != (len(bu.LexMeta) == 1) || (l.meta != nil && !gow.EqualMetadata(&bu.LexMeta[0], l.meta)) {
		return vio("C12:lexer-content", "lexer metadata differs")
	}
	if len(bu.LexSch) != len(l.schemas) || len(bu.LexChan) != len(l.channels) {
		return vio("C12:lexer-content", "lexer saw %d schemas / %d channels, content has %d / %d", len(bu.LexSch), len(bu.LexChan), len(l.schemas), len(l.channels))
	}
	// expected triples in file order
	var want []gow.Triple
	for _, m := range l.msgs {
		c := l.chanByID(m.ChannelID)
		var s *ref.Schema
		for _, x := range l.schemas {
			if x.ID == c.SchemaID {
				s = x
			}
		}
		want = append(want, gow.Triple{S: s, C: c, M: m})
	}
	wk := keys(want)
	if !reflect.DeepEqual(bu.Scan, wk) {
		return vio("C12:scan-content", "non-indexed iterator returned %d messages that differ from the content's %d", len(bu.Scan), len(wk))
	}
	// a time-bounded sequential read: exactly the messages at or after the latest log time
	if bu.ScanLate != nil {
		var late uint64
		for _, m := range l.msgs {
			if m.LogTime > late {
				late = m.LogTime
			}
		}
		var wl []string
		for i, m := range l.msgs {
			if m.LogTime >= late {
				wl = append(wl, wk[i])
			}
		}
		if !reflect.DeepEqual(*bu.ScanLate, wl) {
			return vio("C12:scan-window", "non-indexed read with AfterNanos(latest log time) returned %d messages, %d match", len(*bu.ScanLate), len(wl))
		}
	}
	if bu.IdxBeforeErr != "" && ls.noRepeat == 0 {
		return vio("C12:window-read-error", "Messages(BeforeNanos(latest log time)) failed on a legal layout: %s", bu.IdxBeforeErr)
	}
	if bu.IdxBefore != nil {
		var late uint64
		for _, m := range l.msgs {
			if m.LogTime > late {
				late = m.LogTime
			}
		}
		var wb []string
		for i, m := range l.msgs {
			if m.LogTime < late {
				wb = append(wb, wk[i])
			}
		}
		if !reflect.DeepEqual(*bu.IdxBefore, wb) && !(len(*bu.IdxBefore) == 0 && len(wb) == 0) {
			return vio("C12:window-read-content", "Messages(BeforeNanos(latest log time)) returned %d messages, %d lie before that time", len(*bu.IdxBefore), len(wb))
		}
	}
	wantMeta := 0
	if l.meta != nil {
		wantMeta = 1
	}
	if bu.ScanMeta != wantMeta {
		return vio("C12:scan-metadata", "metadata callback saw %d records, content has %d", bu.ScanMeta, wantMeta)
	}
	// a topic selection through the default (index-preferring) read: exactly that topic's messages;
	// an error is acceptable only where the summary lacks what an indexed read relies on
	for ti, topic := range bu.Topics {
		if bu.TopicErr[ti] != "" {
			if ls.noRepeat == 0 {
				return vio("C12:topic-read-error", "Messages(WithTopics(%q)) failed on a legal layout: %s", topic, bu.TopicErr[ti])
			}
			continue
		}
		var wt []string
		for i, t := range want {
			if t.C.Topic == topic {
				wt = append(wt, wk[i])
			}
		}
		if !reflect.DeepEqual(bu.TopicGot[ti], wt) {
			sig := "C12:topic-read-content"
			if len(bu.TopicGot[ti]) < len(wt) {
				sig = "C12:topic-read-silent-loss"
			}
			return vio(sig, "Messages(WithTopics(%q)) returned %d messages, the content has %d on that topic", topic, len(bu.TopicGot[ti]), len(wt))
		}
		// the same selection in log-time order: same messages, monotone times (an unindexed layout may refuse)
		if bu.TopicLogErr[ti] != "" {
			if ls.noRepeat == 0 && ls.partition != nil {
				return vio("C12:topic-read-error", "Messages(WithTopics(%q), LogTimeOrder) failed on a legal indexed layout: %s", topic, bu.TopicLogErr[ti])
			}
			continue
		}
		gl := keys(bu.TopicLog[ti])
		a, w := append([]string(nil), gl...), append([]string(nil), wt...)
		sort.Strings(a)
		sort.Strings(w)
		if !reflect.DeepEqual(a, w) {
			return vio("C12:topic-read-content", "Messages(WithTopics(%q), LogTimeOrder) returned %d messages, the content has %d on that topic", topic, len(a), len(w))
		}
		for i := 1; i < len(bu.TopicLog[ti]); i++ {
			if bu.TopicLog[ti][i].M.LogTime < bu.TopicLog[ti][i-1].M.LogTime {
				return vio("C12:indexed-order", "Messages(WithTopics(%q), LogTimeOrder) is not sorted at position %d", topic, i)
			}
		}
	}
	if ls.partition != nil && ls.noRepeat != 0 {
		// the summary does not repeat schemas and/or channels: index-based reads may refuse, but what
		// they return must be the content (never a silent subset)
		for i, got := range [][]string{bu.IdxFile, bu.IdxLog, bu.IdxRev} {
			if bu.IdxErr[i] != "" {
				continue
			}
			a, w := append([]string(nil), got...), append([]string(nil), wk...)
			if i > 0 {
				sort.Strings(a)
				sort.Strings(w)
			}
			if !reflect.DeepEqual(a, w) {
				sig := "C12:indexed-content"
				if len(a) < len(w) {
					sig = "C12:indexed-silent-loss"
				}
				return vio(sig, "indexed read (order %d) on a summary without repeated records returned %d messages, the content has %d", i, len(a), len(w))
			}
		}
	}
	if ls.partition != nil && ls.noRepeat == 0 {
		for i, e := range bu.IdxErr {
			if e != "" {
				sig := "C12:indexed-error"
				chunkBeforeChan := false
				for _, op := range ls.order {
					if op == ref.OpChunkIndex {
						chunkBeforeChan = true
					}
					if op == ref.OpChannel {
						break
					}
				}
				if chunkBeforeChan && i > 0 {
					sig = "C12:indexed-error-chunk-index-group-before-channel-group"
				}
				return vio(sig, "indexed read (order %d) failed on a legal layout: %s", i, e)
			}
		}
		if !reflect.DeepEqual(bu.IdxFile, wk) {
			return vio("C12:indexed-content", "indexed file-order read returned %d messages that differ from the content's %d", len(bu.IdxFile), len(wk))
		}
		for ri, got := range [][]gow.Triple{bu.idxLogT, bu.idxRevT} {
			if len(got) != len(want) {
				return vio("C12:indexed-content", "time-ordered read %d returned %d of %d messages", ri, len(got), len(want))
			}
			seen := map[uint32]bool{}
			for i, g := range got {
				if seen[g.M.Sequence] {
					return vio("C12:indexed-content", "time-ordered read %d returned message #%d twice", ri, g.M.Sequence)
				}
				seen[g.M.Sequence] = true
				if int(g.M.Sequence) < 1 || int(g.M.Sequence) > len(want) || tripleKey(g) != wk[g.M.Sequence-1] {
					return vio("C12:indexed-content", "time-ordered read %d returned a message that differs from the content", ri)
				}
				if i > 0 && (ri == 0 && g.M.LogTime < got[i-1].M.LogTime || ri == 1 && g.M.LogTime > got[i-1].M.LogTime) {
					return vio("C12:indexed-order", "time-ordered read %d is not sorted", ri)
				}
			}
		}
		nch := 0
		for range ls.partition {
			nch++
		}
		if bu.NChunk != nch {
			sig := "C12:info-chunk-indexes"
			return vio(sig, "Info lists %d chunk indexes, the file has %d chunks", bu.NChunk, nch)
		}
	}
	wantChan, wantSch := len(l.channels), len(l.schemas)
	if ls.noRepeat&1 != 0 {
		wantSch = 0
	}
	if ls.noRepeat&2 != 0 {
		wantChan = 0
	}
	if bu.NChan != wantChan || bu.NSch != wantSch {
		return vio("C12:info-listings", "Info lists %d channels / %d schemas, the summary keeps %d / %d", bu.NChan, bu.NSch, wantChan, wantSch)
	}
	if ls.opt&oStats != 0 {
		if bu.Stats == nil {
			return vio("C12:info-statistics", "Info has no statistics although the layout carries them")
		}
		w := flatStats{MessageCount: uint64(len(l.msgs)), SchemaCount: uint32(len(l.schemas)), ChannelCount: uint32(len(l.channels)), ChunkCount: uint32(len(ls.partition)), Per: map[uint16]uint64{}}
		if l.att != nil {
			w.AttachmentCount = 1
		}
		if l.meta != nil {
			w.MetadataCount = 1
		}
		for i, m := range l.msgs {
			if i == 0 || m.LogTime < w.Start {
				w.Start = m.LogTime
			}
			if i == 0 || m.LogTime > w.End {
				w.End = m.LogTime
			}
			w.Per[m.ChannelID]++
		}
		if d := statsDiff(*bu.Stats, w); d != "" {
			return vio("C12:info-statistics", "Info.Statistics.%s differs: %+v vs %+v", d, *bu.Stats, w)
		}
	}
	if ls.opt&oAttIndex != 0 && l.att != nil && len(bu.AttIdx) != 1 {
		return vio("C12:attachment-index", "attachment not reachable through its index")
	}
	if ls.opt&oMetaIndex != 0 && l.meta != nil && len(bu.MetaIdx) != 1 {
		return vio("C12:metadata-index", "metadata not reachable through its index")
	}
	return nil
}

func (ls *layoutSpec) String() string {
	return fmt.Sprintf("partition=%v comps=%q placement=%d groups=%v optional=%08b norepeat=%02b", ls.partition, ls.comps, ls.placement, ls.order, ls.opt, ls.noRepeat)
}

// c12Body enumerates dimension pairs: two dimensions vary fully, the others sit at one of two bases.
func c12Body(fullProduct bool, thorough bool) explore.Body {
	contents := logicalContents()
	return func(x *explore.Ctx) *explore.Verdict {
		l := contents[x.Choose("op", len(contents))]
		parts := partitions(len(l.msgs))
		base := x.Choose("layout", 2)
		ls := &layoutSpec{}
		// bases: (0) two chunks uncompressed, defs top level, Go order, everything on
		//        (1) one chunk per message, defs in every chunk, TS order, only chunk CRC + message index
		basePart := func() [][]int {
			if base == 0 || len(l.msgs) == 1 {
				if len(l.msgs) == 1 {
					return [][]int{{0}}
				}
				h := len(l.msgs) / 2
				a, b := []int{}, []int{}
				for i := range l.msgs {
					if i < h {
						a = append(a, i)
					} else {
						b = append(b, i)
					}
				}
				return [][]int{a, b}
			}
			var p [][]int
			for i := range l.msgs {
				p = append(p, []int{i})
			}
			return p
		}
		ls.partition = basePart()
		ls.placement = []int{0, 2}[base]
		ls.order = [][]byte{ref.GoGroupOrder, ref.TSGroupOrder}[base]
		ls.opt = []int{1<<nOpt - 1, oMsgIndex | oChunkCRC}[base]
		baseComp := "" // per-chunk compression varies in dimension (b) only: codec set-up dominates the cost of a read
		dims := []int{0, 1, 2, 3, 4}
		var da, db int
		if fullProduct {
			da, db = -1, -1
		} else {
			pair := x.Choose("layout", 10)
			k := 0
			for i := 0; i < 5; i++ {
				for j := i + 1; j < 5; j++ {
					if k == pair {
						da, db = dims[i], dims[j]
					}
					k++
				}
			}
		}
		vary := func(d int) bool { return fullProduct || d == da || d == db }
		if vary(0) {
			ls.partition = parts[x.Choose("layout", len(parts))]
		}
		ls.comps = make([]string, len(ls.partition))
		for i := range ls.comps {
			ls.comps[i] = baseComp
			if vary(1) {
				ls.comps[i] = []string{"", "zstd", "lz4"}[x.Choose("layout", 3)]
			}
		}
		if vary(2) {
			ls.placement = x.Choose("layout", 4)
		}
		if vary(3) {
			ls.order = allGroupOrders[x.Choose("layout", len(allGroupOrders))]
		}
		if vary(4) {
			if !fullProduct && !thorough && da == 3 && db == 4 {
				// quick: all 720 group orders x the 32 subsets of the five index/statistics sections (CRCs on);
				// thorough pairs the orders with all 256 subsets
				ls.opt = x.Choose("layout", 32) | oChunkCRC | oDataCRC | oSummaryCRC
			} else {
				ls.opt = x.Choose("layout", 1<<nOpt)
			}
		}
		b := l.encode(ls)
		x.Ops += len(l.msgs)
		x.State = explore.Hash(b)
		x.Note = func() any { return map[string]any{"content": l.name, "layout": ls.String()} }
		// the layout must itself be spec-valid according to the reference validator (guards the encoder)
		if probs := ref.Validate(ref.Decode(b, true), ref.Expect{}); len(probs) > 0 {
			panic(explore.HarnessError{Msg: fmt.Sprintf("reference encoder emitted a layout its own validator rejects: %s (%s)", probs[0].Msg, ls)})
		}
		bu := readBundle(b)
		if v := c12Oracle(l, ls, bu); v != nil {
			v.Msg += " — content " + l.name + " — layout " + ls.String()
			return v
		}
		return nil
	}
}

// c12NoRepeatBody enumerates layouts whose summary does not repeat the schema and/or channel
// records (chunk indexes kept): legal files on which index-based reads may refuse but must never
// return a silent subset, and on which sequential reads and Info must be unaffected.
func c12NoRepeatBody() explore.Body {
	contents := logicalContents()
	return func(x *explore.Ctx) *explore.Verdict {
		l := contents[x.Choose("op", len(contents))]
		parts := partitions(len(l.msgs))
		ls := &layoutSpec{}
		ls.partition = parts[x.Choose("layout", len(parts))]
		ls.comps = make([]string, len(ls.partition))
		ls.placement = x.Choose("layout", 4)
		ls.noRepeat = 1 + x.Choose("layout", 3)
		ls.opt = x.Choose("layout", 4) | oSumOffsets | oAttIndex | oMetaIndex | oChunkCRC // message index and statistics vary
		ls.order = [][]byte{ref.GoGroupOrder, ref.TSGroupOrder}[x.Choose("layout", 2)]
		b := l.encode(ls)
		x.Ops += len(l.msgs)
		x.State = explore.Hash(b)
		x.Note = func() any { return map[string]any{"content": l.name, "layout": ls.String()} }
		if probs := ref.Validate(ref.Decode(b, true), ref.Expect{}); len(probs) > 0 {
			panic(explore.HarnessError{Msg: fmt.Sprintf("reference encoder emitted a layout its own validator rejects: %s (%s)", probs[0].Msg, ls)})
		}
		// different points of the pair enumeration emit byte-identical files (three quarters of the
		// executions): a file that already passed in this process is not read again
		c12Mu.Lock()
		_, done := c12Passed[x.State]
		c12Mu.Unlock()
		if done {
			return nil
		}
		bu := readBundle(b)
		if v := c12Oracle(l, ls, bu); v != nil {
			v.Msg += " — content " + l.name + " — layout " + ls.String()
			return v
		}
		c12Mu.Lock()
		c12Passed[x.State] = struct{}{}
		c12Mu.Unlock()
		return nil
	}
}

var (
	c12Mu     sync.Mutex
	c12Passed = map[uint64]struct{}{}
)

// C12: readers return the same content for every legal layout of it.
func C12(r *chk.Run) {
	r.Rule("4 logical contents (<=4 messages on <=2 channels, one with times 1,8,2,3 on two topics so that a chunk can span two later disjoint chunks, shared schema / schemaless, attachment, metadata); layout dimensions: (a) every composition of the message sequence into chunks, each also with an empty chunk at every position, plus unchunked; (b) every per-chunk compression assignment over {none,zstd,lz4}; (c) 4 schema/channel placements; (d) all 720 orders of the six summary groups; (e) all 256 subsets of {message index, statistics, summary offsets, attachment index, metadata index, chunk CRC, data CRC, summary CRC}; quick: every pair of dimensions varied fully with the other three at each of two base settings; thorough adds the full product for the 1-message and 3-message contents; every reader bundle includes a default-options read restricted to each topic; a further phase enumerates every partition x placement x {schemas, channels, both} NOT repeated in the summary x {message index, statistics} subsets x 2 group orders, where index-based and topic-filtered reads may refuse but must never return a silent subset; every emitted file is first validated by the reference validator; distinct = distinct files")
	r.Assume("chunk indexes are always kept, and repeated schema/channel records are kept wherever indexed reads are required to succeed; ties across chunks in time order are unconstrained")
	r.Phase("summary-without-repeated-records", c12NoRepeatBody(), chk.PhaseOpts{Share: 0.2, SplitLen: 3})
	r.Phase("all-pairs-of-dimensions", c12Body(false, r.Thorough()), chk.PhaseOpts{Share: 0.7, SplitLen: 4})
	if r.Thorough() && r.TimeLeft() {
		r.Phase("full-product", c12Body(true, true), chk.PhaseOpts{SplitLen: 5})
	}
}

// ---------------------------------------------------------------- C11

var c11Ops = []byte{0x10, 0x7f, 0x80, 0xff}
var c11Lens = []int{0, 1, 9, 300}
var c11Tails = [][]byte{{0x00}, {0x01, 0xff, 0xff}, bytes.Repeat([]byte{0xa5}, 17)}

// c11Base builds base items/layout for a content in one of three base layouts.
func c11Base(l *logical, baseLayout int) ([]ref.Item, ref.Layout) {
	ls := &layoutSpec{placement: 0, order: ref.GoGroupOrder, opt: 1<<nOpt - 1}
	switch baseLayout {
	case 0:
		ls.partition = nil
	case 1:
		all := []int{}
		for i := range l.msgs {
			all = append(all, i)
		}
		ls.partition = [][]int{all}
		ls.placement = 1
	case 2:
		h := (len(l.msgs) + 1) / 2
		a, b := []int{}, []int{}
		for i := range l.msgs {
			if i < h {
				a = append(a, i)
			} else {
				b = append(b, i)
			}
		}
		ls.partition = [][]int{a, b}
		ls.placement = 2
	}
	ls.comps = make([]string, len(ls.partition))
	var items []ref.Item
	add := func(r ref.RawRec) { rr := r; items = append(items, ref.Item{Rec: &rr}) }
	if l.att != nil {
		add(ref.RAttachment(l.att))
	}
	if ls.partition == nil {
		for _, r := range l.defs(nil) {
			add(r)
		}
		for _, m := range l.msgs {
			add(ref.RMessage(m))
		}
	} else {
		for ci, ch := range ls.partition {
			spec := &ref.ChunkSpec{}
			if (ls.placement == 1 && ci == 0) || ls.placement == 2 {
				spec.Recs = append(spec.Recs, l.defs(nil)...)
			}
			for _, mi := range ch {
				spec.Recs = append(spec.Recs, ref.RMessage(l.msgs[mi]))
			}
			items = append(items, ref.Item{Chunk: spec})
		}
	}
	if l.meta != nil {
		add(ref.RMetadata(l.meta))
	}
	lay := ref.Layout{MessageIndex: true, ChunkIndex: true, RepeatSchemas: true, RepeatChannels: true, Statistics: true, SummaryOffsets: true,
		AttachmentIndex: true, MetadataIndex: true, ChunkCRC: true, DataCRC: true, SummaryCRC: true, GroupOrder: ref.GoGroupOrder}
	return items, lay
}

func cloneItems(items []ref.Item) []ref.Item {
	out := make([]ref.Item, len(items))
	for i, it := range items {
		if it.Rec != nil {
			r := *it.Rec
			out[i].Rec = &r
		}
		if it.Chunk != nil {
			c := *it.Chunk
			c.Recs = append([]ref.RawRec(nil), it.Chunk.Recs...)
			out[i].Chunk = &c
		}
	}
	return out
}

type insertion struct {
	boundary int // summary boundary index, -1 for data-section positions
	where string
	apply func(items []ref.Item, lay *ref.Layout, r ref.RawRec) []ref.Item
}

// insertionPoints lists every position where an unknown record may legally appear.
func insertionPoints(items []ref.Item) []insertion {
	var out []insertion
	for pos := 0; pos <= len(items); pos++ {
		p := pos
		out = append(out, insertion{-1, fmt.Sprintf("data section, before top-level item %d", p), func(it []ref.Item, lay *ref.Layout, r ref.RawRec) []ref.Item {
			rr := r
			n := append([]ref.Item{}, it[:p]...)
			n = append(n, ref.Item{Rec: &rr})
			return append(n, it[p:]...)
		}})
	}
	for ii, it := range items {
		if it.Chunk == nil {
			continue
		}
		for pos := 0; pos <= len(it.Chunk.Recs); pos++ {
			i, p := ii, pos
			out = append(out, insertion{-1, fmt.Sprintf("inside chunk (item %d), before inner record %d", i, p), func(it []ref.Item, lay *ref.Layout, r ref.RawRec) []ref.Item {
				c := it[i].Chunk
				n := append([]ref.RawRec{}, c.Recs[:p]...)
				n = append(n, r)
				c.Recs = append(n, c.Recs[p:]...)
				return it
			}})
		}
	}
	for g := 0; g <= 7; g++ {
		gg := g
		out = append(out, insertion{gg, fmt.Sprintf("summary section, boundary %d", gg), func(it []ref.Item, lay *ref.Layout, r ref.RawRec) []ref.Item {
			if lay.SummaryExtras == nil {
				lay.SummaryExtras = map[int][]ref.RawRec{}
			}
			lay.SummaryExtras[gg] = append(lay.SummaryExtras[gg], r)
			return it
		}})
	}
	return out
}

func unknownRec(op byte, n int) ref.RawRec {
	b := make([]byte, n)
	for i := range b {
		b[i] = byte(0xC0 + i%7)
	}
	return ref.RawRec{Op: op, Body: b}
}

var c11BaseCache = map[string]*bundle{}

func c11Body(x *explore.Ctx) *explore.Verdict {
	contents := logicalContents()
	l := contents[x.Choose("op", len(contents))]
	bl := x.Choose("layout", 3)
	items, lay := c11Base(l, bl)
	key := fmt.Sprintf("%s/%d", l.name, bl)
	fileCacheMu.Lock()
	base := c11BaseCache[key]
	fileCacheMu.Unlock()
	if base == nil {
		base = readBundle(ref.EncodeFile(&ref.Header{Profile: "p", Library: "lib"}, cloneItems(items), lay).Bytes)
		fileCacheMu.Lock()
		c11BaseCache[key] = base
		fileCacheMu.Unlock()
	}
	if base.Err != "" {
		return vio("C11:base-unreadable", "base layout unreadable: %s", base.Err)
	}
	family := x.Choose("layout", 4)
	work := cloneItems(items)
	desc := ""
	switch family {
	case 0: // one unknown record at one position
		pts := insertionPoints(work)
		p := pts[x.Choose("layout", len(pts))]
		op := c11Ops[x.Choose("arg", len(c11Ops))]
		n := c11Lens[x.Choose("arg", len(c11Lens))]
		work = p.apply(work, &lay, unknownRec(op, n))
		desc = fmt.Sprintf("unknown record 0x%02x of %d bytes at: %s", op, n, p.where)
	case 1: // unknown records at all positions at once
		op := c11Ops[x.Choose("arg", len(c11Ops))]
		n := c11Lens[x.Choose("arg", len(c11Lens))]
		// apply from the last position backwards so that earlier positions stay valid
		pts := insertionPoints(work)
		for i := len(pts) - 1; i >= 0; i-- {
			u := unknownRec(op, n)
			if pts[i].boundary >= 0 {
				u.Op = byte(0xA0 + pts[i].boundary) // summary records must stay grouped by opcode
			}
			work = pts[i].apply(work, &lay, u)
		}
		desc = fmt.Sprintf("unknown records 0x%02x of %d bytes at all %d positions", op, n, len(pts))
	case 2: // a tail on one extensible record kind (or on all)
		tail := c11Tails[x.Choose("arg", len(c11Tails))]
		kinds := []byte{ref.OpHeader, ref.OpSchema, ref.OpChannel, ref.OpAttachment, ref.OpMetadata, ref.OpMessageIndex, ref.OpChunkIndex, ref.OpAttachmentIndex, ref.OpMetadataIndex, ref.OpStatistics, ref.OpSummaryOffset}
		k := x.Choose("layout", len(kinds)+1)
		lay.PadInChunk = x.Bool("layout")
		if k == len(kinds) {
			lay.Pad = tail
			desc = fmt.Sprintf("tail % x on every extensible record (in-chunk records too: %v)", tail, lay.PadInChunk)
		} else {
			lay.PadOps = map[byte][]byte{kinds[k]: tail}
			desc = fmt.Sprintf("tail % x on every %s record (in-chunk records too: %v)", tail, ref.OpName(kinds[k]), lay.PadInChunk)
		}
	case 3: // both: tails everywhere and unknown records everywhere
		lay.Pad = c11Tails[x.Choose("arg", len(c11Tails))]
		lay.PadInChunk = true
		pts := insertionPoints(work)
		for i := len(pts) - 1; i >= 0; i-- {
			u := unknownRec(0x99, 5)
			if pts[i].boundary >= 0 {
				u.Op = byte(0xA0 + pts[i].boundary)
			}
			work = pts[i].apply(work, &lay, u)
		}
		desc = fmt.Sprintf("tails % x everywhere plus unknown records at all positions", lay.Pad)
	}
	b := ref.EncodeFile(&ref.Header{Profile: "p", Library: "lib"}, work, lay).Bytes
	x.Ops++
	x.State = explore.Hash(b)
	x.Note = func() any { return map[string]any{"content": l.name, "base_layout": bl, "augmentation": desc} }
	if probs := ref.Validate(ref.Decode(b, true), ref.Expect{AllowUnknownOps: true}); len(probs) > 0 {
		panic(explore.HarnessError{Msg: fmt.Sprintf("reference encoder emitted an augmented file its own validator rejects: %s (%s)", probs[0].Msg, desc)})
	}
	got := readBundle(b)
	if d := diffBundle(got, base); d != "" {
		comp := d
		if i := bytes.IndexAny([]byte(d), ":("); i > 0 {
			comp = d[:i]
		}
		return vio("C11:"+sortedWords(comp), "readers report something different after the augmentation (%s): %s — content %s, base layout %d", desc, d, l.name, bl)
	}
	return nil
}

func sortedWords(s string) string {
	out := []byte{}
	for _, c := range []byte(s) {
		if c == ' ' {
			c = '-'
		}
		out = append(out, c)
	}
	return string(bytes.TrimRight(out, "-"))
}

var _ = sort.Strings

// C11: unknown records and appended fields are skipped, not misread.
func C11(r *chk.Run) {
	r.Rule("3 logical contents x 3 base layouts (unchunked; one chunk; two chunks with indexes) re-encoded by the reference encoder with (0) one unknown record, opcode in {0x10,0x7f,0x80,0xff} x length in {0,1,9,300}, at every position where a record may appear: between top-level data records (never between a chunk and its message indexes), at every position inside every chunk, at every summary group boundary and around the summary offsets; (1) at all positions at once; (2) a tail in {00, 01 ff ff, 17 x a5} on each extensible record kind separately and on all, with and without in-chunk records; (3) both; offsets, indexes and CRCs are recomputed so the file stays valid (checked by the reference validator); distinct = distinct files")
	r.Assume("differential oracle: the un-augmented file read by the same readers (lexer, both iterators in 3 orders, Info, random access through the indexes)")
	r.Phase("augmentations", c11Body, chk.PhaseOpts{SplitLen: 4})
}
