package checks

import (
	"bytes"
	"fmt"
	"io"

	"verif/harness/chk"
	"verif/harness/env"
	"verif/harness/explore"
	"verif/harness/gow"
	"verif/harness/model"
	"verif/harness/ref"
)

// c14Configs are the configurations of the fault enumeration.
func c14Config(x *explore.Ctx, thorough bool) gow.Config {
	type m struct {
		chunked bool
		size    int64
		comp    string
		custom  int
	}
	modes := []m{{false, 0, "", 0}, {true, 1, "", 0}, {true, 64, "", 0}, {true, 1 << 20, "", 0}, {true, 64, "zstd", 0}, {true, 64, "lz4", 0}, {true, 64, "", 1}}
	md := modes[x.Choose("cfg", len(modes))]
	flagSets := []int{0, gow.FSkipMagic, gow.FSkipMessageIndexing | gow.FSkipChunkIndex, gow.FSkipStatistics | gow.FSkipSummaryOffsets | gow.FSkipRepeatedSchemas | gow.FSkipRepeatedChannelInfos | gow.FSkipAttachmentIndex | gow.FSkipMetadataIndex}
	if md.comp == "zstd" && !thorough {
		flagSets = flagSets[:1]
	}
	fl := flagSets[x.Choose("cfg", len(flagSets))]
	return gow.Config{Flags: fl, CRC: x.Bool("cfg"), Chunked: md.chunked, ChunkSize: md.size, Compression: md.comp, Custom: md.custom}
}

// c14Sink: one execution = one workload x configuration x (at most Bound) injected sink faults.
func c14SinkBody(a model.Alphabet, depth int, fixed []*model.Content, thorough bool) explore.Body {
	return func(x *explore.Ctx) *explore.Verdict {
		cfg := c14Config(x, thorough)
		var c *model.Content
		if fixed != nil {
			c = fixed[x.Choose("op", len(fixed))]
			x.Ops += len(c.Ops)
		} else {
			c = model.GenUpTo(x, a, depth)
		}
		x.Note = note(c, cfg)
		ctxs := " — " + cfg.String() + " — " + c.String()
		good := gow.Write(c, cfg, nil, nil)
		if _, err := good.FirstErr(); err != nil || good.Panic != "" {
			return vio("C14:fault-free-run-failed", "fault-free run failed: %v %s%s", err, good.Panic, ctxs)
		}
		sink := env.NewFaultSink(x, true)
		// prefix invariant after every individual write (also the sink-side statement of C09)
		prefixBroken := ""
		sink.AfterWrite = func(s *env.FaultSink) {
			if prefixBroken == "" && !bytes.HasPrefix(good.Bytes, s.Data) {
				prefixBroken = fmt.Sprintf("after write #%d the sink holds %d bytes that are not a prefix of the fault-free output", s.Writes-1, len(s.Data))
			}
		}
		// run the calls one by one so that the call during which the fault happened is known
		res := gow.WriteStepwise(c, cfg, sink, func() int { return sink.FaultAt })
		x.State = explore.Hash(sink.Data, []byte{byte(sink.Answer), byte(sink.FaultAt)})
		if res.Panic != "" {
			return vio("C14:panic", "writer panicked with a failing sink: %s (write #%d answer %d)%s", res.Panic, sink.FaultAt, sink.Answer, ctxs)
		}
		if prefixBroken != "" {
			return vio("C14:not-a-prefix", "%s%s", prefixBroken, ctxs)
		}
		if !bytes.HasPrefix(good.Bytes, sink.Data) {
			return vio("C14:not-a-prefix", "bytes accepted by the sink (%d) are not a prefix of the fault-free output (%d) (fault at write #%d answer %d sticky %v)%s", len(sink.Data), len(good.Bytes), sink.FaultAt, sink.Answer, sink.Sticky, ctxs)
		}
		if sink.FaultAt < 0 {
			x.Outcome = "no-fault"
			if !bytes.Equal(sink.Data, good.Bytes) {
				return vio("C14:nondeterministic-output", "two fault-free runs differ%s", ctxs)
			}
			return nil
		}
		// the call during which write #FaultAt happened must have returned an error
		if res.FaultCall < 0 {
			return vio("C14:harness", "fault recorded but no call attributed%s", ctxs)
		}
		if res.Errs[res.FaultCall] == nil {
			return vio("C14:swallowed:"+callKind(res.Calls[res.FaultCall]), "%s returned nil although destination write #%d failed (answer %d, sticky %v)%s", res.Calls[res.FaultCall], sink.FaultAt, sink.Answer, sink.Sticky, ctxs)
		}
		x.Outcome = "reported:" + callKind(res.Calls[res.FaultCall])
		return nil
	}
}

func callKind(s string) string {
	for i, ch := range s {
		if ch == '(' {
			return s[:i]
		}
	}
	return s
}

// c14AttBody enumerates attachment source faults.
func c14AttBody(x *explore.Ctx) *explore.Verdict {
	cfg := c14Config(x, false)
	sizes := []int{0, 3, 16, 200}
	z := sizes[x.Choose("arg", len(sizes))]
	data := make([]byte, z)
	for i := range data {
		data[i] = byte(i*3 + 1)
	}
	a := &ref.Attachment{LogTime: 1, CreateTime: 2, Name: "a", MediaType: "m", Data: data}
	before := x.Bool("op") // some records before the attachment
	var ops []model.Op
	if before {
		ops = append(ops, model.Sch(model.S1), model.Chn(model.C1), model.Msg(1, 5, 3, 0))
	}
	ops = append(ops, model.Att(a), model.Met(model.D1))
	c := model.Fixed(model.Headers[0], ops...)
	// fault menu: 0 none | 1..z+1 fail after j=0..z bytes | then z early ends j<z | then late ends +1,+100
	n := 1 + (z + 1) + z + 2
	f := x.Choose("fault", n)
	src := &env.AttSource{Data: data, EndAt: -1, FailAt: -1}
	what := "fault-free"
	switch {
	case f == 0:
	case f <= z+1:
		src.FailAt = f - 1
		src.Together = x.Bool("faultmode")
		what = fmt.Sprintf("source fails after %d of %d bytes (error delivered with data: %v)", src.FailAt, z, src.Together)
	case f <= z+1+z:
		src.EndAt = f - (z + 2)
		what = fmt.Sprintf("source ends after %d of %d bytes", src.EndAt, z)
	case f == z+1+z+1:
		src.Extra = 1
		what = "source delivers 1 byte more than declared"
	default:
		src.Extra = 100
		what = "source delivers 100 bytes more than declared"
	}
	x.Note = func() any { return map[string]string{"config": cfg.String(), "attachment": what} }
	res := gow.Write(c, cfg, nil, func(at *ref.Attachment) (io.Reader, uint64) { return src, uint64(z) })
	x.Ops += len(c.Ops)
	ctxs := " — " + cfg.String() + " — " + what
	if res.Panic != "" {
		return vio("C14:att-panic", "writer panicked: %s%s", res.Panic, ctxs)
	}
	idx := 1
	if before {
		idx = 4
	}
	idx++ // NewWriter, WriteHeader precede
	if f == 0 {
		if _, err := res.FirstErr(); err != nil {
			return vio("C14:att-fault-free-failed", "fault-free attachment write failed: %v%s", err, ctxs)
		}
		x.Outcome = "att-ok"
		return nil
	}
	if len(res.Errs) <= idx {
		return vio("C14:harness", "attachment call not reached%s", ctxs)
	}
	if res.Errs[idx] == nil {
		kind := "fails"
		if src.FailAt < 0 {
			kind = "wrong-length"
		} else if src.FailAt == z {
			kind = "fails-at-end"
		}
		return vio("C14:att-accepted:"+kind, "WriteAttachment returned nil although the %s%s", what, ctxs)
	}
	x.Outcome = "att-reported"
	return nil
}

// C14: a failing sink or attachment source is reported by the call it hits.
func C14(r *chk.Run) {
	r.Level = "fault_enumeration"
	depth := 3
	if r.Thorough() {
		depth = 4
	}
	r.Rule("for every workload x configuration the fault-free run is taken first; then every destination Write call is a choice point with answers ok | (0,err) | (len/2,err) | (len-1,ErrShortWrite), each transient or sticky, deviation bound 1 (complete: the caller stops at the first reported error); attachment sources: fail after every j<=size (error delivered with or after the data), end after every j<size, deliver size+1 / size+100; non-trivial = distinct (accepted bytes, fault) pairs")
	r.Assume("contract-violating sink answers (short count with nil error) are not generated: io.Writer forbids them")
	r.Phase("attachment-source-faults", c14AttBody, chk.PhaseOpts{Bound: 1, Share: 0.2})
	r.Phase(fmt.Sprintf("sink-faults-reduced-depth<=%d", depth), c14SinkBody(model.Reduced(), depth, nil, r.Thorough()), chk.PhaseOpts{Bound: 1, Share: 0.5})
	r.Phase("sink-faults-emphasis", c14SinkBody(model.Alphabet{}, 0, emphasis()[:5], r.Thorough()), chk.PhaseOpts{Bound: 1, Share: 0.6})
}
