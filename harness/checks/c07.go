package checks

import (
	"bytes"
	"errors"
	"fmt"
	"io"

	mcap "github.com/foxglove/mcap/go/mcap"

	"verif/harness/chk"
	"verif/harness/explore"
	"verif/harness/gow"
	"verif/harness/model"
	"verif/harness/ref"
)

// the fourth mode: lz4 frames without content checksum (LZ4F defaults, as non-Go writers emit them): there
// the chunk CRC is the only thing between a flipped bit and the consumer
// the fifth mode: a caller-supplied codec on both sides (LexerOptions.Decompressors) that cannot notice damage itself
var c07Modes = []rfMode{{true, 64, "", 0}, {true, 64, "zstd", 0}, {true, 64, "lz4", 0}, {true, 64, "", 4}, {true, 64, "", 1}}

type chunkSpan struct {
	recOff, recLen int // stored records field
	tokBefore      int // tokens (of the validating lexer) delivered before this chunk's first record
	tokOf          int // tokens of this chunk
}

// chunkSpans locates the stored payload of every chunk and its token range in the lexer stream.
func chunkSpans(f *ref.File) []chunkSpan {
	var out []chunkSpan
	ntok := 0
	for i := range f.Recs {
		r := &f.Recs[i]
		switch r.Op {
		case ref.OpChunk:
			out = append(out, chunkSpan{r.Chunk.RecordsOff, len(r.Chunk.Records), ntok, len(r.Inner)})
			ntok += len(r.Inner)
		default:
			ntok++ // every other record (attachments through the callback) is one token
		}
	}
	return out
}

func sameTok(a, b gow.Tok) bool {
	if a.Type != b.Type {
		return false
	}
	if a.Type == gow.TokAttachment {
		return gow.EqualAttachment(a.Att, b.Att)
	}
	return bytes.Equal(a.Body, b.Body)
}

// mutation applies a fault family member to a copy of the file.
type mutation struct {
	desc string
	ci   int // chunk hit
}

func c07ChunkBody(family string, nWork int) explore.Body {
	return func(x *explore.Ctx) *explore.Verdict {
		f := chooseFile(x, nWork, c07Modes, false)
		spans := chunkSpans(f.dec)
		orig := truthOf(f, rkLexerValidate, true)
		if dc := f.cfg.Decompressors(); dc != nil {
			// files of a caller-supplied codec are read with the matching caller-supplied decompressor
			fileCacheMu.Lock()
			t := truthCache[f.key+"|custom"]
			fileCacheMu.Unlock()
			if t == nil {
				lr := gow.Lex(bytes.NewReader(f.bytes), gow.LexOpts{Validate: true, AttCRC: true, Decomp: dc})
				t = &readOutcome{toks: lr.Toks, err: lr.Err, panic: lr.Panic}
				fileCacheMu.Lock()
				truthCache[f.key+"|custom"] = t
				fileCacheMu.Unlock()
			}
			orig = t
		}
		b := append([]byte(nil), f.bytes...)
		hit := -1
		desc := "intact"
		total := 0
		switch family {
		case "bit":
			for _, s := range spans {
				total += s.recLen * 8
			}
			k := x.Choose("fault", total+1)
			if k > 0 {
				k--
				for ci, s := range spans {
					if k < s.recLen*8 {
						b[s.recOff+k/8] ^= 1 << (k % 8)
						hit, desc = ci, fmt.Sprintf("bit %d of byte %d of chunk %d's stored records (file offset %d)", k%8, k/8, ci, s.recOff+k/8)
						break
					}
					k -= s.recLen * 8
				}
			}
		case "bitpair": // all pairs of flips within one 64-byte window (thorough)
			ci := x.Choose("op", len(spans))
			s := spans[ci]
			first := x.Choose("fault", s.recLen*8+1)
			if first > 0 {
				first--
				win := 64 * 8
				if first+win > s.recLen*8 {
					win = s.recLen*8 - first
				}
				second := x.Choose("fault2", win) // 0 = only the first bit
				b[s.recOff+first/8] ^= 1 << (first % 8)
				if second > 0 {
					k2 := first + second
					b[s.recOff+k2/8] ^= 1 << (k2 % 8)
				}
				hit, desc = ci, fmt.Sprintf("bits %d and +%d of chunk %d's stored records", first, second, ci)
			}
		case "overwrite": // every 2-byte overwrite with 00 00 / FF FF, every swap of adjacent 8-byte ranges
			ci := x.Choose("op", len(spans))
			s := spans[ci]
			k := x.Choose("fault", 1+3*(s.recLen-1))
			if k > 0 {
				k--
				pos, what := k/3, k%3
				switch what {
				case 0, 1:
					v := byte(0)
					if what == 1 {
						v = 0xff
					}
					if b[s.recOff+pos] == v && b[s.recOff+pos+1] == v {
						desc = "no-op overwrite"
					} else {
						b[s.recOff+pos], b[s.recOff+pos+1] = v, v
						hit, desc = ci, fmt.Sprintf("bytes %d..%d of chunk %d overwritten with %02x", pos, pos+1, ci, v)
					}
				case 2:
					if pos+16 <= s.recLen && !bytes.Equal(b[s.recOff+pos:s.recOff+pos+8], b[s.recOff+pos+8:s.recOff+pos+16]) {
						tmp := append([]byte(nil), b[s.recOff+pos:s.recOff+pos+8]...)
						copy(b[s.recOff+pos:], b[s.recOff+pos+8:s.recOff+pos+16])
						copy(b[s.recOff+pos+8:], tmp)
						hit, desc = ci, fmt.Sprintf("8-byte ranges at %d and %d of chunk %d swapped", pos, pos+8, ci)
					} else {
						desc = "no-op swap"
					}
				}
			}
		}
		x.Note = func() any { return map[string]any{"config": f.cfg.String(), "fault": desc, "file_len": len(f.bytes)} }
		ctxs := fmt.Sprintf(" — %s — %s — %s", desc, f.cfg, f.c)
		x.State = explore.Hash(b)
		for _, emitInvalid := range []bool{false, true} {
			lr := gow.Lex(bytes.NewReader(b), gow.LexOpts{Validate: true, EmitInvalid: emitInvalid, AttCRC: true, Limit: len(orig.toks) + 8, Decomp: f.cfg.Decompressors()})
			what := fmt.Sprintf("validating lexer(emitInvalid=%v)", emitInvalid)
			if lr.Panic != "" {
				return vio("C07:panic", "%s panicked: %s%s", what, lr.Panic, ctxs)
			}
			if hit < 0 {
				if !sameToks(lr.Toks, orig.toks) || !errors.Is(lr.Err, io.EOF) {
					return vio("C07:intact-differs", "%s on the intact file differs%s", what, ctxs)
				}
				x.Outcome = "intact"
				continue
			}
			s := spans[hit]
			// split at the first invalid-chunk token
			inv := -1
			for i, t := range lr.Toks {
				if t.Type == mcap.TokenInvalidChunk {
					inv = i
					break
				}
			}
			head := lr.Toks
			if inv >= 0 {
				head = lr.Toks[:inv]
			}
			if inv < 0 && errors.Is(lr.Err, io.EOF) && sameToks(lr.Toks, orig.toks) {
				x.Outcome = "harmless" // the alteration left the decoded records intact
				continue
			}
			// the delivered tokens must be a prefix of the original ...
			for i := range head {
				if i >= len(orig.toks) || !sameTok(head[i], orig.toks[i]) {
					return vio("C07:altered-data-delivered", "%s delivered token %d that differs from the original before reporting anything (ended %v)%s", what, i, lr.Err, ctxs)
				}
			}
			// ... that stops no later than the damaged chunk
			if len(head) > s.tokBefore+s.tokOf {
				return vio("C07:reported-too-late", "%s delivered %d tokens; the damaged chunk ends at token %d (ended %v)%s", what, len(head), s.tokBefore+s.tokOf, lr.Err, ctxs)
			}
			if inv >= 0 {
				// after an invalid-chunk token: only records that follow the damaged chunk, in order
				rest := lr.Toks[inv+1:]
				j := s.tokBefore + s.tokOf
				for _, t := range rest {
					if t.Type == mcap.TokenInvalidChunk {
						continue
					}
					for j < len(orig.toks) && !sameTok(t, orig.toks[j]) {
						j++
					}
					if j >= len(orig.toks) {
						return vio("C07:data-after-invalid-chunk", "%s: after the invalid-chunk token a %v token was delivered that is not a record following the damaged chunk%s", what, t.Type, ctxs)
					}
					j++
				}
				x.Outcome = "invalid-chunk-token"
				continue
			}
			// terminal error must be a report: not something a consumer loop takes for end of file
			if lr.Err == nil || errors.Is(lr.Err, io.EOF) {
				sig := "C07:error-is-eof"
				if f.cfg.Compression == "lz4" {
					sig = "C07:error-is-eof-lz4"
				}
				return vio(sig, "%s lost %d tokens and ended with %q, which errors.Is(io.EOF): consumers treat it as a clean end%s", what, len(orig.toks)-len(head), fmt.Sprint(lr.Err), ctxs)
			}
			x.Outcome = "error"
		}
		return nil
	}
}

func sameToks(a, b []gow.Tok) bool {
	if len(a) != len(b) {
		return false
	}
	for i := range a {
		if !sameTok(a[i], b[i]) {
			return false
		}
	}
	return true
}

// c07AttBody: every single-bit flip inside the content of every attachment record.
func c07AttBody(nWork int) explore.Body {
	return func(x *explore.Ctx) *explore.Verdict { return c07Att(x, nWork) }
}

// c07Crafted: attachments whose field sizes make a single flipped bit of the name length (resp.
// media type length) swallow exactly the rest of the record, so that the next field read meets the
// end of the record with zero bytes available.
func c07Crafted() *model.Content {
	a3 := &ref.Attachment{LogTime: 1, CreateTime: 2, Name: "n", MediaType: "abc", Data: []byte("0123456789abc")}
	a4 := &ref.Attachment{LogTime: 3, CreateTime: 4, Name: "nn", MediaType: "abc", Data: []byte("wxyz")}
	a5 := &ref.Attachment{LogTime: 5, CreateTime: 6, Name: "empty", MediaType: "m", Data: nil}
	return model.Fixed(model.Headers[0], model.Chn(model.C0), model.Msg(0, 1, 3, 0), model.Att(a3), model.Msg(0, 2, 3, 0), model.Att(a4), model.Msg(0, 3, 3, 0), model.Att(a5))
}

func c07Att(x *explore.Ctx, nWork int) *explore.Verdict {
	f := chooseFileFrom(x, append([]*model.Content{c07Crafted()}, rfWorkloads()...), nWork+1, []rfMode{{false, 0, "", 0}, {true, 64, "", 0}}, true)
	var atts []*ref.Rec
	for i := range f.dec.Recs {
		if f.dec.Recs[i].Op == ref.OpAttachment {
			atts = append(atts, &f.dec.Recs[i])
		}
	}
	ai := x.Choose("op", len(atts))
	a := atts[ai]
	k := x.Choose("fault", int(a.Len)*8+1)
	b := append([]byte(nil), f.bytes...)
	desc := "intact"
	if k > 0 {
		k--
		b[a.Off+9+k/8] ^= 1 << (k % 8)
		desc = fmt.Sprintf("bit %d of content byte %d of attachment %d", k%8, k/8, ai)
	}
	ctxs := fmt.Sprintf(" — %s — %s — %s", desc, f.cfg, f.c)
	x.Note = func() any { return map[string]any{"config": f.cfg.String(), "fault": desc} }
	x.State = explore.Hash(b)
	orig := truthOf(f, rkLexerValidate, true)
	for _, parsedFirst := range []bool{false, true} {
		if v := c07AttOne(x, f, b, ai, desc, ctxs, orig, parsedFirst); v != nil {
			return v
		}
	}
	return nil
}

func c07AttOne(x *explore.Ctx, f *rfFile, b []byte, ai int, desc, ctxs string, orig *readOutcome, parsedFirst bool) *explore.Verdict {
	if parsedFirst {
		ctxs += " — stored CRC requested before the computed one"
	}
	lr := gow.Lex(bytes.NewReader(b), gow.LexOpts{Validate: true, AttCRC: true, ParsedCRCFirst: parsedFirst, Limit: len(orig.toks) + 8})
	if lr.Panic != "" {
		return vio("C07:att-panic", "lexer panicked: %s%s", lr.Panic, ctxs)
	}
	// find the ai-th attachment token
	n := -1
	var tok *gow.Tok
	for i := range lr.Toks {
		if lr.Toks[i].Type == gow.TokAttachment {
			n++
			if n == ai {
				tok = &lr.Toks[i]
			}
		}
	}
	if desc == "intact" {
		if tok == nil || tok.ComputedCRC != tok.ParsedCRC || !errors.Is(lr.Err, io.EOF) {
			return vio("C07:att-intact", "intact attachment not delivered with matching CRCs%s", ctxs)
		}
		return nil
	}
	if tok == nil {
		if lr.Err == nil || errors.Is(lr.Err, io.EOF) {
			return vio("C07:att-vanished", "altered attachment silently skipped (ended %v)%s", lr.Err, ctxs)
		}
		x.Outcome = "att-parse-error"
		return nil
	}
	if tok.CRCErr != "" {
		x.Outcome = "att-crc-unavailable-error"
		return nil
	}
	if tok.ComputedCRC == tok.ParsedCRC {
		// equal CRCs: only acceptable if the read then failed with an error (data short etc.)
		if lr.Err != nil && !errors.Is(lr.Err, io.EOF) && len(lr.Toks) > 0 && lr.Toks[len(lr.Toks)-1].Type == gow.TokAttachment && &lr.Toks[len(lr.Toks)-1] == tok {
			x.Outcome = "att-read-error"
			return nil
		}
		return vio("C07:att-crc-equal", "altered attachment delivered with computed CRC == stored CRC (%08x)%s", tok.ParsedCRC, ctxs)
	}
	x.Outcome = "att-crc-mismatch"
	return nil
}

// C07: corrupted chunk or attachment bytes are never read back as good data.
func C07(r *chk.Run) {
	r.Level = "fault_enumeration"
	n := 1
	if r.Thorough() {
		n = 3
	}
	r.Rule("files written with checksums x {none, zstd, lz4}; every single-bit flip of every byte of every chunk's stored records field, one per execution, read with the validating lexer with and without EmitInvalidChunks; every single-bit flip of every content byte of every attachment record with ComputeAttachmentCRCs; thorough adds all pairs of flips within a 64-byte window, every 2-byte overwrite with 00/FF and every swap of adjacent 8-byte ranges; distinct = distinct corrupted files")
	r.Assume("only the lexer is in scope: the Reader/iterator API has no way to ask for validation and the property is conditional on asking")
	r.Assume("an error for which errors.Is(err, io.EOF) holds while records are missing is not a report (every consumer loop in the repository ends quietly on it)")
	r.Phase("chunk-bit-flips", c07ChunkBody("bit", n), chk.PhaseOpts{Bound: 1, SplitLen: 3, Share: 0.6})
	r.Phase("attachment-bit-flips", c07AttBody(n), chk.PhaseOpts{Bound: 1, SplitLen: 5, Share: 0.5})
	if r.Thorough() {
		r.Phase("chunk-2byte-overwrites-and-swaps", c07ChunkBody("overwrite", n), chk.PhaseOpts{Bound: 1, SplitLen: 4, Share: 0.4})
		r.Phase("chunk-bit-pairs-in-64B-window", c07ChunkBody("bitpair", 1), chk.PhaseOpts{Bound: 1, SplitLen: 4, Cost: func(k string) int {
			if k == "fault" {
				return 1
			}
			return 0
		}})
	}
}
