package checks

import (
	"bytes"
	"crypto/sha256"
	"encoding/hex"
	"encoding/json"
	"fmt"
	"os"
	"os/exec"
	"path/filepath"
	"reflect"
	"regexp"
	"sort"
	"strconv"
	"strings"
	"sync"

	"verif/harness/chk"
	"verif/harness/ref"
)

func confData() string { return filepath.Join(chk.Repo(), "tests/conformance/data") }

type confRecord struct {
	Type   string           `json:"type"`
	Fields [][2]interface{} `json:"fields"`
}

type confCase struct {
	Records []confRecord `json:"records"`
	Meta    struct {
		Variant struct {
			Features []string `json:"features"`
		} `json:"variant"`
	} `json:"meta"`
}

func (r *confRecord) field(name string) interface{} {
	for _, f := range r.Fields {
		if f[0] == name {
			return f[1]
		}
	}
	return nil
}
func (r *confRecord) u64(name string) uint64 {
	s, _ := r.field(name).(string)
	v, _ := strconv.ParseUint(s, 10, 64)
	return v
}
func (r *confRecord) str(name string) string { s, _ := r.field(name).(string); return s }
func (r *confRecord) bytesF(name string) []byte {
	l, _ := r.field(name).([]interface{})
	out := []byte{}
	for _, e := range l {
		s, _ := e.(string)
		v, _ := strconv.Atoi(s)
		out = append(out, byte(v))
	}
	return out
}
func (r *confRecord) kv(name string) []ref.KV {
	m, _ := r.field(name).(map[string]interface{})
	out := []ref.KV{}
	for k, v := range m {
		s, _ := v.(string)
		out = append(out, ref.KV{K: k, V: s})
	}
	sort.Slice(out, func(i, j int) bool { return out[i].K < out[j].K })
	return out
}

// confEncode regenerates the binary form of a vector from its expectation, the way
// tests/conformance/scripts/generate-inputs.ts does.
func confEncode(tc *confCase) []byte {
	has := map[string]bool{}
	for _, f := range tc.Meta.Variant.Features {
		has[f] = true
	}
	var top []ref.Item
	chunk := &ref.ChunkSpec{}
	add := func(r ref.RawRec, chunkable bool) {
		if chunkable && has["ch"] {
			chunk.Recs = append(chunk.Recs, r)
			return
		}
		rr := r
		top = append(top, ref.Item{Rec: &rr})
	}
	for i := range tc.Records {
		r := &tc.Records[i]
		switch r.Type {
		case "Schema":
			add(ref.RSchema(&ref.Schema{ID: uint16(r.u64("id")), Name: r.str("name"), Encoding: r.str("encoding"), Data: r.bytesF("data")}), true)
		case "Channel":
			add(ref.RChannel(&ref.Channel{ID: uint16(r.u64("id")), SchemaID: uint16(r.u64("schema_id")), Topic: r.str("topic"), MessageEncoding: r.str("message_encoding"), Metadata: r.kv("metadata")}), true)
		case "Message":
			add(ref.RMessage(&ref.Message{ChannelID: uint16(r.u64("channel_id")), Sequence: uint32(r.u64("sequence")), LogTime: r.u64("log_time"), PublishTime: r.u64("publish_time"), Data: r.bytesF("data")}), true)
		case "Attachment":
			add(ref.RAttachment(&ref.Attachment{LogTime: r.u64("log_time"), CreateTime: r.u64("create_time"), Name: r.str("name"), MediaType: r.str("media_type"), Data: r.bytesF("data")}), false)
		case "Metadata":
			add(ref.RMetadata(&ref.Metadata{Name: r.str("name"), Metadata: r.kv("metadata")}), false)
		case "DataEnd":
			goto done
		}
	}
done:
	if has["ch"] {
		top = append(top, ref.Item{Chunk: chunk})
	}
	lay := ref.Layout{
		MessageIndex: has["mx"], EmptyMIForChans: true, ChunkIndex: has["chx"], AttachmentIndex: has["ax"], MetadataIndex: has["mdx"],
		Statistics: has["st"], RepeatSchemas: has["rsh"], RepeatChannels: has["rch"], SummaryOffsets: has["sum"],
		ChunkCRC: true, DataCRC: true, SummaryCRC: true, GroupOrder: ref.TSGroupOrder,
	}
	if has["pad"] {
		lay.Pad = []byte{0x01, 0xff, 0xff}
	}
	return ref.EncodeFile(&ref.Header{}, top, lay).Bytes
}

var lfsRe = regexp.MustCompile(`oid sha256:([0-9a-f]{64})\s+size (\d+)`)

// lfsPointer returns (sha256, size, true) if path is a Git-LFS pointer file.
func lfsPointer(path string) (string, int, bool, []byte) {
	b, err := os.ReadFile(path)
	if err != nil {
		return "", 0, false, nil
	}
	if m := lfsRe.FindSubmatch(b); m != nil && len(b) < 400 {
		n, _ := strconv.Atoi(string(m[2]))
		return string(m[1]), n, true, nil
	}
	return "", 0, false, b
}

func buildConfTool(dir, name string) (string, error) {
	src := filepath.Join(chk.Repo(), "go/conformance", name, "main.go")
	d := filepath.Join(dir, name)
	if err := os.MkdirAll(d, 0o755); err != nil {
		return "", err
	}
	b, err := os.ReadFile(src)
	if err != nil {
		return "", err
	}
	_ = os.WriteFile(filepath.Join(d, "main.go"), b, 0o644)
	gomod := "module conftool\n\ngo 1.21\n\nrequire github.com/foxglove/mcap/go/mcap v0.0.0\n\nreplace github.com/foxglove/mcap/go/mcap => " + chk.Repo() + "/go/mcap\n"
	_ = os.WriteFile(filepath.Join(d, "go.mod"), []byte(gomod), 0o644)
	sum, _ := os.ReadFile("/verif/harness/go.sum")
	_ = os.WriteFile(filepath.Join(d, "go.sum"), sum, 0o644)
	bin := filepath.Join(d, "tool")
	cmd := exec.Command("go", "build", "-o", bin, ".")
	cmd.Dir = d
	cmd.Env = append(os.Environ(), "GOFLAGS=-mod=mod", "GOPROXY=off", "GOSUMDB=off", "GOTOOLCHAIN=local", "GOWORK=off")
	if out, err := cmd.CombinedOutput(); err != nil {
		return "", fmt.Errorf("building %s: %v\n%s", name, err, out)
	}
	return bin, nil
}

func normJSON(b []byte) (interface{}, error) {
	var v interface{}
	err := json.Unmarshal(b, &v)
	return v, err
}

// expectedIndexed re-implements IndexedReadTestRunner.expectedResult of TestRunner.ts.
func expectedIndexed(tc *confCase) map[string]interface{} {
	res := map[string][]confRecord{"schemas": {}, "channels": {}, "messages": {}, "statistics": {}}
	seenS, seenC := map[uint64]bool{}, map[uint64]bool{}
	for _, r := range tc.Records {
		switch r.Type {
		case "Schema":
			if id := r.u64("id"); !seenS[id] {
				seenS[id] = true
				res["schemas"] = append(res["schemas"], r)
			}
		case "Channel":
			if id := r.u64("id"); !seenC[id] {
				seenC[id] = true
				res["channels"] = append(res["channels"], r)
			}
		case "Message":
			res["messages"] = append(res["messages"], r)
		case "Statistics":
			res["statistics"] = append(res["statistics"], r)
		}
	}
	sort.SliceStable(res["messages"], func(i, j int) bool { return res["messages"][i].u64("log_time") < res["messages"][j].u64("log_time") })
	sort.SliceStable(res["schemas"], func(i, j int) bool { return res["schemas"][i].u64("id") < res["schemas"][j].u64("id") })
	sort.SliceStable(res["channels"], func(i, j int) bool { return res["channels"][i].u64("id") < res["channels"][j].u64("id") })
	b, _ := json.Marshal(res)
	var out map[string]interface{}
	_ = json.Unmarshal(b, &out)
	return out
}

// recordsFromFile renders a file decoded by the reference decoder in the expectation's format.
func refRecordsJSON(f *ref.File) []interface{} {
	var out []interface{}
	rec := func(typ string, fields map[string]interface{}) {
		names := make([]string, 0, len(fields))
		for k := range fields {
			names = append(names, k)
		}
		sort.Strings(names)
		fl := []interface{}{}
		for _, n := range names {
			fl = append(fl, []interface{}{n, fields[n]})
		}
		out = append(out, map[string]interface{}{"type": typ, "fields": fl})
	}
	u := func(v uint64) string { return strconv.FormatUint(v, 10) }
	bl := func(b []byte) []interface{} {
		o := []interface{}{}
		for _, x := range b {
			o = append(o, strconv.Itoa(int(x)))
		}
		return o
	}
	kv := func(m []ref.KV) map[string]interface{} {
		o := map[string]interface{}{}
		for _, e := range m {
			o[e.K] = e.V
		}
		return o
	}
	var emit func(r *ref.Rec)
	emit = func(r *ref.Rec) {
		switch r.Op {
		case ref.OpHeader:
			rec("Header", map[string]interface{}{"profile": r.Header.Profile, "library": r.Header.Library})
		case ref.OpFooter:
			rec("Footer", map[string]interface{}{"summary_start": u(r.Footer.SummaryStart), "summary_offset_start": u(r.Footer.SummaryOffsetStart), "summary_crc": u(uint64(r.Footer.SummaryCRC))})
		case ref.OpSchema:
			rec("Schema", map[string]interface{}{"id": u(uint64(r.Schema.ID)), "name": r.Schema.Name, "encoding": r.Schema.Encoding, "data": bl(r.Schema.Data)})
		case ref.OpChannel:
			rec("Channel", map[string]interface{}{"id": u(uint64(r.Channel.ID)), "schema_id": u(uint64(r.Channel.SchemaID)), "topic": r.Channel.Topic, "message_encoding": r.Channel.MessageEncoding, "metadata": kv(r.Channel.Metadata)})
		case ref.OpMessage:
			m := r.Message
			rec("Message", map[string]interface{}{"channel_id": u(uint64(m.ChannelID)), "sequence": u(uint64(m.Sequence)), "log_time": u(m.LogTime), "publish_time": u(m.PublishTime), "data": bl(m.Data)})
		case ref.OpChunk:
			for i := range r.Inner {
				emit(&r.Inner[i])
			}
		case ref.OpMessageIndex:
		case ref.OpChunkIndex:
			c := r.ChunkIndex
			offs := map[string]interface{}{}
			for _, o := range c.MessageIndexOffsets {
				offs[u(uint64(o.ChannelID))] = u(o.Offset)
			}
			rec("ChunkIndex", map[string]interface{}{"message_start_time": u(c.StartTime), "message_end_time": u(c.EndTime), "chunk_start_offset": u(c.ChunkStart), "chunk_length": u(c.ChunkLength),
				"message_index_offsets": offs, "message_index_length": u(c.MessageIndexLength), "compression": c.Compression, "compressed_size": u(c.CompressedSize), "uncompressed_size": u(c.Uncompressed)})
		case ref.OpAttachment:
			a := r.Attachment
			rec("Attachment", map[string]interface{}{"log_time": u(a.LogTime), "create_time": u(a.CreateTime), "name": a.Name, "media_type": a.MediaType, "data": bl(a.Data)})
		case ref.OpAttachmentIndex:
			a := r.AttachmentIndex
			rec("AttachmentIndex", map[string]interface{}{"offset": u(a.Offset), "length": u(a.Length), "log_time": u(a.LogTime), "create_time": u(a.CreateTime), "data_size": u(a.DataSize), "name": a.Name, "media_type": a.MediaType})
		case ref.OpStatistics:
			s := r.Statistics
			cc := map[string]interface{}{}
			for _, c := range s.ChannelCounts {
				cc[u(uint64(c.ChannelID))] = u(c.Count)
			}
			rec("Statistics", map[string]interface{}{"message_count": u(s.MessageCount), "schema_count": u(uint64(s.SchemaCount)), "channel_count": u(uint64(s.ChannelCount)), "attachment_count": u(uint64(s.AttachmentCount)),
				"metadata_count": u(uint64(s.MetadataCount)), "chunk_count": u(uint64(s.ChunkCount)), "message_start_time": u(s.StartTime), "message_end_time": u(s.EndTime), "channel_message_counts": cc})
		case ref.OpMetadata:
			rec("Metadata", map[string]interface{}{"name": r.Metadata.Name, "metadata": kv(r.Metadata.Metadata)})
		case ref.OpMetadataIndex:
			rec("MetadataIndex", map[string]interface{}{"offset": u(r.MetadataIndex.Offset), "length": u(r.MetadataIndex.Length), "name": r.MetadataIndex.Name})
		case ref.OpSummaryOffset:
			rec("SummaryOffset", map[string]interface{}{"group_opcode": u(uint64(r.SummaryOffset.GroupOpcode)), "group_start": u(r.SummaryOffset.Start), "group_length": u(r.SummaryOffset.Len)})
		case ref.OpDataEnd:
			rec("DataEnd", map[string]interface{}{"data_section_crc": u(uint64(r.DataEnd.CRC))})
		}
	}
	for i := range f.Recs {
		emit(&f.Recs[i])
	}
	return out
}

// C17: Go tools reproduce the cross-language conformance expectations.
func C17(r *chk.Run) {
	if r.IsWorker() {
		return
	}
	r.Level = "model_checking"
	r.Rule("the finite conformance matrix is enumerated completely: every .json expectation under tests/conformance/data; the binary input of each vector is regenerated by the reference encoder and accepted only if its sha256 and size equal the Git-LFS pointer; read tool (streamed) on all vectors, read tool (indexed) on the variants GoIndexedReaderTestRunner admits, write tool on the non-padded vectors (byte-exact against the LFS oid, and record stream decoded by the reference decoder against the expectation); distinct = distinct vectors")
	r.Assume("the two tools are rebuilt from /repo's working tree (main.go copied into a scratch module that replaces go/mcap by /repo/go/mcap)")
	r.Assume("the .mcap halves are Git-LFS pointers; the sha256/size in each pointer pins the regenerated binary")
	files, _ := filepath.Glob(filepath.Join(confData(), "*", "*.json"))
	sort.Strings(files)
	only := ""
	if r.Replay != nil {
		if m, ok := r.Replay.Detail.(map[string]interface{}); ok {
			only, _ = m["vector"].(string)
		}
	}
	tmp, err := os.MkdirTemp("", "c17-")
	if err != nil {
		r.HarnessError(err.Error())
		return
	}
	defer os.RemoveAll(tmp)
	readTool, err := buildConfTool(tmp, "test-read-conformance")
	if err != nil {
		r.HarnessError(err.Error())
		return
	}
	writeTool, err := buildConfTool(tmp, "test-write-conformance")
	if err != nil {
		r.HarnessError(err.Error())
		return
	}
	var mu sync.Mutex
	counts := map[string]int64{}
	pinned := 0
	var wg sync.WaitGroup
	sem := make(chan struct{}, r.Workers)
	type viol struct{ sig, msg, vector string }
	var viols []viol
	addV := func(mode, vector, msg string) {
		mu.Lock()
		viols = append(viols, viol{"C17:" + mode + ":" + vector, msg, vector})
		mu.Unlock()
	}
	for _, jf := range files {
		name := strings.TrimSuffix(filepath.Base(jf), ".json")
		if only != "" && name != only {
			continue
		}
		wg.Add(1)
		sem <- struct{}{}
		go func(jf, name string) {
			defer wg.Done()
			defer func() { <-sem }()
			raw, err := os.ReadFile(jf)
			if err != nil {
				addV("harness", name, err.Error())
				return
			}
			var tc confCase
			if err := json.Unmarshal(raw, &tc); err != nil {
				addV("harness", name, err.Error())
				return
			}
			has := map[string]bool{}
			for _, f := range tc.Meta.Variant.Features {
				has[f] = true
			}
			mcapPath := strings.TrimSuffix(jf, ".json") + ".mcap"
			oid, size, isPtr, real := lfsPointer(mcapPath)
			bin := real
			if isPtr {
				bin = confEncode(&tc)
				sum := sha256.Sum256(bin)
				if hex.EncodeToString(sum[:]) != oid || len(bin) != size {
					// the oracle input cannot be trusted: a harness problem, never a verdict
					mu.Lock()
					r.HarnessError(fmt.Sprintf("reference encoder does not reproduce %s: sha256 %s size %d, pointer %s size %d", name, hex.EncodeToString(sum[:]), len(bin), oid, size))
					mu.Unlock()
					return
				}
				mu.Lock()
				pinned++
				mu.Unlock()
			}
			binPath := filepath.Join(tmp, name+".mcap")
			_ = os.WriteFile(binPath, bin, 0o644)
			defer os.Remove(binPath)
			wantRecs, _ := normJSON(mustJSON(map[string]interface{}{"records": tc.Records}))
			// streamed read
			out, err := exec.Command(readTool, binPath, "streamed").Output()
			got, jerr := normJSON(out)
			mu.Lock()
			counts["read-streamed"]++
			mu.Unlock()
			if err != nil || jerr != nil {
				addV("read-streamed", name, fmt.Sprintf("test-read-conformance %s streamed failed: %v %v: %s", name, err, jerr, clipS(string(out))))
			} else if !reflect.DeepEqual(got, wantRecs) {
				addV("read-streamed", name, fmt.Sprintf("test-read-conformance %s streamed prints a record stream that differs from the expectation: %s", name, firstDiff(got, wantRecs)))
			}
			// indexed read
			hasMsg := false
			for _, rec := range tc.Records {
				hasMsg = hasMsg || rec.Type == "Message"
			}
			if hasMsg && has["ch"] && has["chx"] && has["rch"] && has["rsh"] && has["mx"] {
				out, err := exec.Command(readTool, binPath, "indexed").Output()
				got, jerr := normJSON(out)
				mu.Lock()
				counts["read-indexed"]++
				mu.Unlock()
				want := expectedIndexed(&tc)
				if err != nil || jerr != nil {
					addV("read-indexed", name, fmt.Sprintf("test-read-conformance %s indexed failed: %v %v: %s", name, err, jerr, clipS(string(out))))
				} else if !reflect.DeepEqual(got, interface{}(want)) {
					addV("read-indexed", name, fmt.Sprintf("test-read-conformance %s indexed differs from expectedResult(): %s", name, firstDiff(got, interface{}(want))))
				}
			}
			// write
			if !has["pad"] {
				out, err := exec.Command(writeTool, jf).Output()
				mu.Lock()
				counts["write"]++
				mu.Unlock()
				if err != nil {
					addV("write", name, fmt.Sprintf("test-write-conformance %s failed: %v: %s", name, err, clipS(string(out))))
					return
				}
				f := ref.Decode(out, true)
				if f.Err != "" {
					addV("write", name, fmt.Sprintf("test-write-conformance %s wrote an undecodable file: %s", name, f.Err))
					return
				}
				gotRecs, _ := normJSON(mustJSON(map[string]interface{}{"records": refRecordsJSON(f)}))
				if !reflect.DeepEqual(gotRecs, wantRecs) {
					addV("write", name, fmt.Sprintf("test-write-conformance %s: record stream (offsets, lengths, checksums) differs from the expectation: %s", name, firstDiff(gotRecs, wantRecs)))
				} else if !bytes.Equal(out, bin) {
					addV("write-bytes", name, fmt.Sprintf("test-write-conformance %s: same record stream but not byte-identical to the reference binary (%d vs %d bytes)", name, len(out), len(bin)))
				}
			}
		}(jf, name)
	}
	wg.Wait()
	total := int64(0)
	for _, n := range counts {
		total += n
	}
	if r.Replay != nil {
		for _, v := range viols {
			fmt.Printf("replay verdict: VIOLATION sig=%s\n  %s\n", v.sig, v.msg)
		}
		if len(viols) == 0 {
			fmt.Println("replay verdict: property holds on this vector")
		}
		if len(viols) > 0 {
			os.Exit(1)
		}
		os.Exit(0)
	}
	r.Count("conformance-matrix", total, total, int64(len(files)), true, map[string]any{"vectors": len(files), "binaries_pinned_by_lfs_sha256": pinned, "tool_runs": counts})
	r.Nontrivial(int64(len(files)))
	for i, f := range files {
		if i%100 == 0 {
			r.Sample(map[string]string{"vector": strings.TrimSuffix(filepath.Base(f), ".json")})
		}
	}
	sort.Slice(viols, func(i, j int) bool { return viols[i].sig < viols[j].sig })
	for _, v := range viols {
		r.Violation("conformance-matrix", v.sig, v.msg, map[string]string{"vector": v.vector}, 1)
	}
}

func mustJSON(v interface{}) []byte { b, _ := json.Marshal(v); return b }

func clipS(s string) string {
	if len(s) > 300 {
		return s[:300]
	}
	return s
}

// firstDiff describes the first difference between two decoded JSON values.
func firstDiff(a, b interface{}) string {
	ja, _ := json.Marshal(a)
	jb, _ := json.Marshal(b)
	n := len(ja)
	if len(jb) < n {
		n = len(jb)
	}
	i := 0
	for i < n && ja[i] == jb[i] {
		i++
	}
	lo := i - 60
	if lo < 0 {
		lo = 0
	}
	ha, hb := i+80, i+80
	if ha > len(ja) {
		ha = len(ja)
	}
	if hb > len(jb) {
		hb = len(jb)
	}
	return fmt.Sprintf("got …%s… expected …%s…", ja[lo:ha], jb[lo:hb])
}
