package checks

import (
	"bytes"
	"fmt"
	"sort"

	mcap "github.com/foxglove/mcap/go/mcap"

	"verif/harness/gow"
	"verif/harness/ref"
)

// libParseDiff lexes b with the chunk-emitting lexer and, for every top-level token, compares what
// the library's Parse* function makes of the body with what the from-the-spec decoder makes of the
// same bytes (both rendered field by field). It returns "" or the first difference. Records with
// appended bytes (extensions) must parse to the same fields as without them.
func libParseDiff(b []byte) (diff string) {
	defer func() {
		if p := recover(); p != nil {
			diff = "Parse* panicked: " + gow.PanicSite(p)
		}
	}()
	lr := gow.Lex(bytes.NewReader(b), gow.LexOpts{EmitChunks: true})
	if lr.Panic != "" {
		return "chunk-emitting lexer panicked: " + lr.Panic
	}
	kv := func(m map[string]string) string { return fmt.Sprint(ref.MapKV(m)) }
	for i, t := range lr.Toks {
		r := ref.Rec{Body: t.Body}
		var lib, want string
		var err error
		switch t.Type {
		case mcap.TokenHeader:
			r.Op = ref.OpHeader
			var v *mcap.Header
			if v, err = mcap.ParseHeader(t.Body); err == nil {
				lib = fmt.Sprintf("%q %q", v.Profile, v.Library)
			}
			ref.ParseBody(&r)
			if r.Header != nil {
				want = fmt.Sprintf("%q %q", r.Header.Profile, r.Header.Library)
			}
		case mcap.TokenFooter:
			r.Op = ref.OpFooter
			var v *mcap.Footer
			if v, err = mcap.ParseFooter(t.Body); err == nil {
				lib = fmt.Sprint(v.SummaryStart, v.SummaryOffsetStart, v.SummaryCRC)
			}
			ref.ParseBody(&r)
			if r.Footer != nil {
				want = fmt.Sprint(r.Footer.SummaryStart, r.Footer.SummaryOffsetStart, r.Footer.SummaryCRC)
			}
		case mcap.TokenSchema:
			r.Op = ref.OpSchema
			var v *mcap.Schema
			if v, err = mcap.ParseSchema(t.Body); err == nil {
				lib = fmt.Sprintf("%d %q %q %x", v.ID, v.Name, v.Encoding, v.Data)
			}
			ref.ParseBody(&r)
			if r.Schema != nil {
				want = fmt.Sprintf("%d %q %q %x", r.Schema.ID, r.Schema.Name, r.Schema.Encoding, r.Schema.Data)
			}
		case mcap.TokenChannel:
			r.Op = ref.OpChannel
			var v *mcap.Channel
			if v, err = mcap.ParseChannel(t.Body); err == nil {
				lib = fmt.Sprintf("%d %d %q %q %s", v.ID, v.SchemaID, v.Topic, v.MessageEncoding, kv(v.Metadata))
			}
			ref.ParseBody(&r)
			if r.Channel != nil {
				want = fmt.Sprintf("%d %d %q %q %s", r.Channel.ID, r.Channel.SchemaID, r.Channel.Topic, r.Channel.MessageEncoding, fmt.Sprint(ref.MapKV(ref.KVMap(r.Channel.Metadata))))
			}
		case mcap.TokenMessage:
			r.Op = ref.OpMessage
			var v *mcap.Message
			if v, err = mcap.ParseMessage(t.Body); err == nil {
				lib = fmt.Sprintf("%d %d %d %d %x", v.ChannelID, v.Sequence, v.LogTime, v.PublishTime, v.Data)
			}
			ref.ParseBody(&r)
			if r.Message != nil {
				want = fmt.Sprintf("%d %d %d %d %x", r.Message.ChannelID, r.Message.Sequence, r.Message.LogTime, r.Message.PublishTime, r.Message.Data)
			}
		case mcap.TokenChunk:
			r.Op = ref.OpChunk
			var v *mcap.Chunk
			if v, err = mcap.ParseChunk(t.Body); err == nil {
				lib = fmt.Sprintf("%d %d %d %d %q %x", v.MessageStartTime, v.MessageEndTime, v.UncompressedSize, v.UncompressedCRC, v.Compression, v.Records)
			}
			ref.ParseBody(&r)
			if r.Chunk != nil {
				want = fmt.Sprintf("%d %d %d %d %q %x", r.Chunk.StartTime, r.Chunk.EndTime, r.Chunk.UncompressedSize, r.Chunk.UncompressedCRC, r.Chunk.Compression, r.Chunk.Records)
			}
		case mcap.TokenMessageIndex:
			r.Op = ref.OpMessageIndex
			var v *mcap.MessageIndex
			if v, err = mcap.ParseMessageIndex(t.Body); err == nil {
				lib = fmt.Sprintf("%d %v | Entries() %v", v.ChannelID, v.Records, v.Entries())
			}
			ref.ParseBody(&r)
			if r.MessageIndex != nil {
				var es []mcap.MessageIndexEntry
				for _, e := range r.MessageIndex.Entries {
					es = append(es, mcap.MessageIndexEntry{Timestamp: e.Time, Offset: e.Offset})
				}
				if es == nil {
					es = []mcap.MessageIndexEntry{}
				}
				want = fmt.Sprintf("%d %v | Entries() %v", r.MessageIndex.ChannelID, es, es)
			}
		case mcap.TokenChunkIndex:
			r.Op = ref.OpChunkIndex
			var v *mcap.ChunkIndex
			if v, err = mcap.ParseChunkIndex(t.Body); err == nil {
				var ks []int
				for k := range v.MessageIndexOffsets {
					ks = append(ks, int(k))
				}
				sort.Ints(ks)
				off := ""
				for _, k := range ks {
					off += fmt.Sprintf("%d:%d,", k, v.MessageIndexOffsets[uint16(k)])
				}
				lib = fmt.Sprintf("%d %d %d %d [%s] %d %q %d %d", v.MessageStartTime, v.MessageEndTime, v.ChunkStartOffset, v.ChunkLength, off, v.MessageIndexLength, string(v.Compression), v.CompressedSize, v.UncompressedSize)
			}
			ref.ParseBody(&r)
			if c := r.ChunkIndex; c != nil {
				m := map[int]uint64{}
				var ks []int
				for _, e := range c.MessageIndexOffsets {
					if _, dup := m[int(e.ChannelID)]; !dup {
						ks = append(ks, int(e.ChannelID))
					}
					m[int(e.ChannelID)] = e.Offset
				}
				sort.Ints(ks)
				off := ""
				for _, k := range ks {
					off += fmt.Sprintf("%d:%d,", k, m[k])
				}
				want = fmt.Sprintf("%d %d %d %d [%s] %d %q %d %d", c.StartTime, c.EndTime, c.ChunkStart, c.ChunkLength, off, c.MessageIndexLength, c.Compression, c.CompressedSize, c.Uncompressed)
			}
		case mcap.TokenAttachmentIndex:
			r.Op = ref.OpAttachmentIndex
			var v *mcap.AttachmentIndex
			if v, err = mcap.ParseAttachmentIndex(t.Body); err == nil {
				lib = fmt.Sprintf("%d %d %d %d %d %q %q", v.Offset, v.Length, v.LogTime, v.CreateTime, v.DataSize, v.Name, v.MediaType)
			}
			ref.ParseBody(&r)
			if a := r.AttachmentIndex; a != nil {
				want = fmt.Sprintf("%d %d %d %d %d %q %q", a.Offset, a.Length, a.LogTime, a.CreateTime, a.DataSize, a.Name, a.MediaType)
			}
		case mcap.TokenStatistics:
			r.Op = ref.OpStatistics
			var v *mcap.Statistics
			if v, err = mcap.ParseStatistics(t.Body); err == nil {
				var ks []int
				for k := range v.ChannelMessageCounts {
					ks = append(ks, int(k))
				}
				sort.Ints(ks)
				per := ""
				for _, k := range ks {
					per += fmt.Sprintf("%d:%d,", k, v.ChannelMessageCounts[uint16(k)])
				}
				lib = fmt.Sprintf("%d %d %d %d %d %d %d %d [%s]", v.MessageCount, v.SchemaCount, v.ChannelCount, v.AttachmentCount, v.MetadataCount, v.ChunkCount, v.MessageStartTime, v.MessageEndTime, per)
			}
			ref.ParseBody(&r)
			if s := r.Statistics; s != nil {
				m := map[int]uint64{}
				var ks []int
				for _, e := range s.ChannelCounts {
					if _, dup := m[int(e.ChannelID)]; !dup {
						ks = append(ks, int(e.ChannelID))
					}
					m[int(e.ChannelID)] = e.Count
				}
				sort.Ints(ks)
				per := ""
				for _, k := range ks {
					per += fmt.Sprintf("%d:%d,", k, m[k])
				}
				want = fmt.Sprintf("%d %d %d %d %d %d %d %d [%s]", s.MessageCount, s.SchemaCount, s.ChannelCount, s.AttachmentCount, s.MetadataCount, s.ChunkCount, s.StartTime, s.EndTime, per)
			}
		case mcap.TokenMetadata:
			r.Op = ref.OpMetadata
			var v *mcap.Metadata
			if v, err = mcap.ParseMetadata(t.Body); err == nil {
				lib = fmt.Sprintf("%q %s", v.Name, kv(v.Metadata))
			}
			ref.ParseBody(&r)
			if r.Metadata != nil {
				want = fmt.Sprintf("%q %s", r.Metadata.Name, fmt.Sprint(ref.MapKV(ref.KVMap(r.Metadata.Metadata))))
			}
		case mcap.TokenMetadataIndex:
			r.Op = ref.OpMetadataIndex
			var v *mcap.MetadataIndex
			if v, err = mcap.ParseMetadataIndex(t.Body); err == nil {
				lib = fmt.Sprintf("%d %d %q", v.Offset, v.Length, v.Name)
			}
			ref.ParseBody(&r)
			if r.MetadataIndex != nil {
				want = fmt.Sprintf("%d %d %q", r.MetadataIndex.Offset, r.MetadataIndex.Length, r.MetadataIndex.Name)
			}
		case mcap.TokenSummaryOffset:
			r.Op = ref.OpSummaryOffset
			var v *mcap.SummaryOffset
			if v, err = mcap.ParseSummaryOffset(t.Body); err == nil {
				lib = fmt.Sprintf("%d %d %d", v.GroupOpcode, v.GroupStart, v.GroupLength)
			}
			ref.ParseBody(&r)
			if r.SummaryOffset != nil {
				want = fmt.Sprintf("%d %d %d", r.SummaryOffset.GroupOpcode, r.SummaryOffset.Start, r.SummaryOffset.Len)
			}
		case mcap.TokenDataEnd:
			r.Op = ref.OpDataEnd
			var v *mcap.DataEnd
			if v, err = mcap.ParseDataEnd(t.Body); err == nil {
				lib = fmt.Sprint(v.DataSectionCRC)
			}
			ref.ParseBody(&r)
			if r.DataEnd != nil {
				want = fmt.Sprint(r.DataEnd.CRC)
			}
		default:
			continue
		}
		if r.Err != "" {
			continue // the reference decoder rejects the body: not a record this comparison covers
		}
		if err != nil {
			return fmt.Sprintf("token %d (%v): the library's Parse function fails on a body the specification accepts: %v", i, t.Type, err)
		}
		if lib != want {
			return fmt.Sprintf("token %d (%v): the library parses %s, the specification says %s", i, t.Type, lib, want)
		}
	}
	return ""
}
