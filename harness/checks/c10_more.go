package checks

import (
	"encoding/binary"
	"fmt"
	"math"
	"strings"

	"verif/harness/ref"
)

// ---------------------------------------------------------------- nested and spliced records

// rechunk rebuilds the chunk record r with new uncompressed inner records (compression kept, sizes
// fixed up, CRC zero) and returns the whole file with that chunk replaced. Every file offset the
// summary and footer hold for positions behind the chunk is shifted by the change in length, and
// the chunk's own index entry gets the new lengths: the mutant differs from a valid file only by
// what was put into the chunk, so the index-based readers get as far as the nested records.
func rechunk(s *c10Seed, r *ref.Rec, inner []byte) []byte { return rechunkDeclaring(s, r, inner, uint64(len(inner))) }

// rechunkDeclaring is rechunk with the uncompressed size the chunk header (and its index entry) declare given separately.
func rechunkDeclaring(s *c10Seed, r *ref.Rec, inner []byte, declared uint64) []byte {
	ch := r.Chunk
	stored, err := ref.Compress(ch.Compression, inner)
	if err != nil {
		return nil
	}
	var body []byte
	body = binary.LittleEndian.AppendUint64(body, ch.StartTime)
	body = binary.LittleEndian.AppendUint64(body, ch.EndTime)
	body = binary.LittleEndian.AppendUint64(body, declared)
	body = binary.LittleEndian.AppendUint32(body, 0)
	body = binary.LittleEndian.AppendUint32(body, uint32(len(ch.Compression)))
	body = append(body, ch.Compression...)
	body = binary.LittleEndian.AppendUint64(body, uint64(len(stored)))
	body = append(body, stored...)
	b := append([]byte(nil), s.bytes[:r.Off]...)
	b = append(b, ref.OpChunk)
	b = binary.LittleEndian.AppendUint64(b, uint64(len(body)))
	b = append(b, body...)
	b = append(b, s.bytes[r.End():]...)
	delta := len(b) - len(s.bytes)
	for _, f := range sizeFields(s) {
		if f.off < r.End() || f.w != 8 {
			continue // fields inside or before the chunk keep their place and value
		}
		at := f.off + delta
		v := binary.LittleEndian.Uint64(b[at:])
		switch {
		case f.fileOffset && v >= uint64(r.End()):
			binary.LittleEndian.PutUint64(b[at:], v+uint64(delta))
		case f.ofChunkAt == r.Off && f.field == "chunk_length":
			binary.LittleEndian.PutUint64(b[at:], uint64(9+len(body)))
		case f.ofChunkAt == r.Off && f.field == "compressed_size":
			binary.LittleEndian.PutUint64(b[at:], uint64(len(stored)))
		case f.ofChunkAt == r.Off && f.field == "uncompressed_size":
			binary.LittleEndian.PutUint64(b[at:], declared)
		}
	}
	return b
}

// nested: every top-level record of the file (the chunk itself included: a chunk inside a chunk,
// and a chunk inside itself) placed at the front, in the middle and at the end of every chunk's
// records; and every chunk's records replaced by the whole file (magic included).
func (f structFamily) nested() []func() ([]byte, string) {
	var out []func() ([]byte, string)
	s := f.seed
	recs := s.dec.Recs
	for ci := range recs {
		c := &recs[ci]
		if c.Op != ref.OpChunk || c.Chunk.Uncompressed == nil {
			continue
		}
		in := c.Chunk.Uncompressed
		mid := 0
		if len(c.Inner) > 1 {
			mid = c.Inner[len(c.Inner)/2].Off
		}
		for ri := range recs {
			r := &recs[ri]
			for where, at := range []int{0, mid, len(in)} {
				if where == 1 && mid == 0 {
					continue
				}
				at, where := at, where
				out = append(out, func() ([]byte, string) {
					inner := append([]byte(nil), in[:at]...)
					inner = append(inner, s.bytes[r.Off:r.End()]...)
					inner = append(inner, in[at:]...)
					return rechunk(s, c, inner), fmt.Sprintf("%s record at %d copied into the chunk at %d (%s, inner offset %d)", ref.OpName(r.Op), r.Off, c.Off, []string{"front", "middle", "end"}[where], at)
				})
			}
		}
		out = append(out, func() ([]byte, string) {
			return rechunk(s, c, s.bytes), fmt.Sprintf("records of the chunk at %d replaced by the whole file", c.Off)
		})
		out = append(out, func() ([]byte, string) {
			return rechunk(s, c, nil), fmt.Sprintf("records of the chunk at %d replaced by nothing", c.Off)
		})
		// stale slot: the chunk holds only a record-aligned prefix of an earlier chunk's records but
		// declares that chunk's full uncompressed size - a reader that reuses the earlier chunk's
		// buffer finds the earlier chunk's remaining records still lying behind the short payload
		for pi := 0; pi < ci; pi++ {
			pc := &recs[pi]
			if pc.Op != ref.OpChunk || pc.Chunk.Uncompressed == nil {
				continue
			}
			pin := pc.Chunk.Uncompressed
			for k := 0; k < len(pc.Inner); k++ {
				cut := pc.Inner[k].Off // prefix of k records
				out = append(out, func() ([]byte, string) {
					return rechunkDeclaring(s, c, pin[:cut], uint64(len(pin))), fmt.Sprintf("chunk at %d: records replaced by the first %d bytes of the chunk at %d, declaring that chunk's uncompressed size %d", c.Off, cut, pc.Off, len(pin))
				})
			}
		}
	}
	return out
}

// truncated: every record with its body cut by 1..24 bytes and by half, the record length fixed up
// (the framing stays intact, the parser of that record kind sees a body that ends early: inside a
// fixed field, inside a length-prefixed string, between array entries) - top-level records, and the
// records inside every chunk (chunk re-encoded, offsets fixed up).
func (f structFamily) truncated() []func() ([]byte, string) {
	var out []func() ([]byte, string)
	s := f.seed
	recs := s.dec.Recs
	fields := sizeFields(s)
	cuts := func(n int) []int {
		var ks []int
		for k := 1; k <= 24 && k <= n; k++ {
			ks = append(ks, k)
		}
		if n/2 > 24 {
			ks = append(ks, n/2)
		}
		return ks
	}
	for i := range recs {
		r := &recs[i]
		for _, k := range cuts(int(r.Len)) {
			k := k
			out = append(out, func() ([]byte, string) {
				body := s.bytes[r.Off+9 : r.End()-k]
				b := append([]byte(nil), s.bytes[:r.Off]...)
				b = append(b, r.Op)
				b = binary.LittleEndian.AppendUint64(b, uint64(len(body)))
				b = append(b, body...)
				return append(b, s.bytes[r.End():]...), fmt.Sprintf("%s record at %d: last %d bytes of its body removed, record length fixed up", ref.OpName(r.Op), r.Off, k)
			})
		}
		// consistent truncation: when the record ends with a length-prefixed string, array or map, that
		// prefix is reduced by the same k - the extent check of the trailing field passes and the cut
		// falls inside an entry (a 10-byte count entry, a 16-byte index entry, a key/value pair)
		for _, fl := range fields {
			if fl.w != 4 || fl.off < r.Off || fl.off >= r.End() || !strings.HasSuffix(fl.field, "_length") {
				continue
			}
			v := int(binary.LittleEndian.Uint32(s.bytes[fl.off:]))
			if fl.off+4+v != r.End() {
				continue
			}
			for k := 1; k <= 17 && k <= v; k++ {
				k, fl := k, fl
				out = append(out, func() ([]byte, string) {
					body := append([]byte(nil), s.bytes[r.Off+9:r.End()-k]...)
					binary.LittleEndian.PutUint32(body[fl.off-(r.Off+9):], uint32(v-k))
					b := append([]byte(nil), s.bytes[:r.Off]...)
					b = append(b, r.Op)
					b = binary.LittleEndian.AppendUint64(b, uint64(len(body)))
					b = append(b, body...)
					return append(b, s.bytes[r.End():]...), fmt.Sprintf("%s record at %d: last %d bytes removed, record length and %s reduced alike", ref.OpName(r.Op), r.Off, k, fl.field)
				})
			}
		}
		if r.Op != ref.OpChunk || r.Chunk.Uncompressed == nil {
			continue
		}
		in := r.Chunk.Uncompressed
		for j := range r.Inner {
			q := &r.Inner[j]
			for _, k := range cuts(int(q.Len)) {
				k := k
				out = append(out, func() ([]byte, string) {
					body := in[q.Off+9 : q.End()-k]
					inner := append([]byte(nil), in[:q.Off]...)
					inner = append(inner, q.Op)
					inner = binary.LittleEndian.AppendUint64(inner, uint64(len(body)))
					inner = append(inner, body...)
					inner = append(inner, in[q.End():]...)
					return rechunk(s, r, inner), fmt.Sprintf("%s record at inner offset %d of the chunk at %d: last %d bytes of its body removed, lengths fixed up", ref.OpName(q.Op), q.Off, r.Off, k)
				})
			}
		}
	}
	return out
}

// spliced: for every ordered pair of records (i, j) record i is replaced by the first half of i
// followed by the second half of j (framing of i kept, so the body is a chimera), and by the second
// half of j alone re-framed under i's opcode.
func (f structFamily) spliced() []func() ([]byte, string) {
	var out []func() ([]byte, string)
	s := f.seed
	recs := s.dec.Recs
	for i := range recs {
		a := &recs[i]
		for j := range recs {
			if i == j {
				continue
			}
			c := &recs[j]
			out = append(out, func() ([]byte, string) {
				ab := s.bytes[a.Off+9 : a.End()]
				cb := s.bytes[c.Off+9 : c.End()]
				body := append(append([]byte(nil), ab[:len(ab)/2]...), cb[len(cb)/2:]...)
				b := append([]byte(nil), s.bytes[:a.Off]...)
				b = append(b, a.Op)
				b = binary.LittleEndian.AppendUint64(b, uint64(len(body)))
				b = append(b, body...)
				return append(b, s.bytes[a.End():]...), fmt.Sprintf("%s at %d: second half of its body replaced by the second half of the %s at %d", ref.OpName(a.Op), a.Off, ref.OpName(c.Op), c.Off)
			})
			out = append(out, func() ([]byte, string) {
				// unframed splice: the byte stream jumps from the middle of record i into the middle of record j
				b := append([]byte(nil), s.bytes[:a.Off+(a.End()-a.Off)/2]...)
				return append(b, s.bytes[c.Off+(c.End()-c.Off)/2:]...), fmt.Sprintf("bytes from the middle of the %s at %d to the middle of the %s at %d %s", ref.OpName(a.Op), a.Off, ref.OpName(c.Op), c.Off, map[bool]string{true: "removed", false: "repeated"}[c.Off > a.Off])
			})
		}
	}
	return out
}

// ---------------------------------------------------------------- depth 2 over the size/offset/count fields

type c10Field struct {
	off, w     int
	what       string
	field      string
	fileOffset bool // the value is an absolute file offset
	ofChunkAt  int  // for fields of a chunk index record: the file offset of the chunk it describes (else -1)
}

// sizeFields lists the absolute offset of every length, size, offset and count field of every
// top-level record (and of the records inside uncompressed chunks), from the record layouts of the
// specification.
func sizeFields(s *c10Seed) []c10Field {
	var out []c10Field
	var walk func(recs []ref.Rec, base int, where string)
	walk = func(recs []ref.Rec, base int, where string) {
		for i := range recs {
			r := &recs[i]
			o := base + r.Off
			b := o + 9
			add := func(off, w int, n string) {
				f := c10Field{off: off, w: w, what: fmt.Sprintf("%s.%s of the record at %d%s", ref.OpName(r.Op), n, r.Off, where), field: n, ofChunkAt: -1}
				switch {
				case n == "summary_start" || n == "summary_offset_start" || n == "chunk_start_offset" || n == "group_start":
					f.fileOffset = true
				case n == "offset" && (r.Op == ref.OpAttachmentIndex || r.Op == ref.OpMetadataIndex):
					f.fileOffset = true
				case strings.HasPrefix(n, "message_index_offsets[") && strings.HasSuffix(n, ".offset"):
					f.fileOffset = true
				}
				if r.Op == ref.OpChunkIndex && r.ChunkIndex != nil {
					f.ofChunkAt = int(r.ChunkIndex.ChunkStart)
				}
				out = append(out, f)
			}
			add(o+1, 8, "record_length")
			if r.Err != "" {
				continue
			}
			str := func(at int, n string) int { // u32-prefixed string/bytes at absolute offset at
				add(at, 4, n+"_length")
				return at + 4 + int(binary.LittleEndian.Uint32(s.bytes[at:]))
			}
			switch r.Op {
			case ref.OpHeader:
				p := str(b, "profile")
				str(p, "library")
			case ref.OpFooter:
				add(b, 8, "summary_start")
				add(b+8, 8, "summary_offset_start")
			case ref.OpSchema:
				add(b, 2, "id")
				p := str(b+2, "name")
				p = str(p, "encoding")
				str(p, "data")
			case ref.OpChannel:
				add(b, 2, "id")
				add(b+2, 2, "schema_id")
				p := str(b+4, "topic")
				p = str(p, "message_encoding")
				add(p, 4, "metadata_length")
			case ref.OpMessage:
				add(b, 2, "channel_id")
			case ref.OpChunk:
				add(b+16, 8, "uncompressed_size")
				p := str(b+28, "compression")
				add(p, 8, "records_length")
				if r.Chunk != nil && r.Chunk.Compression == "" && r.InnerErr == "" {
					walk(r.Inner, r.Chunk.RecordsOff, fmt.Sprintf(" in the chunk at %d", r.Off))
				}
			case ref.OpMessageIndex:
				add(b, 2, "channel_id")
				add(b+2, 4, "records_length")
				for k := range r.MessageIndex.Entries {
					add(b+6+16*k+8, 8, fmt.Sprintf("records[%d].offset", k))
				}
			case ref.OpChunkIndex:
				add(b+16, 8, "chunk_start_offset")
				add(b+24, 8, "chunk_length")
				add(b+32, 4, "message_index_offsets_length")
				p := b + 36
				for k := range r.ChunkIndex.MessageIndexOffsets {
					add(p, 2, fmt.Sprintf("message_index_offsets[%d].channel", k))
					add(p+2, 8, fmt.Sprintf("message_index_offsets[%d].offset", k))
					p += 10
				}
				add(p, 8, "message_index_length")
				p = str(p+8, "compression")
				add(p, 8, "compressed_size")
				add(p+8, 8, "uncompressed_size")
			case ref.OpAttachment:
				p := str(b+16, "name")
				p = str(p, "media_type")
				add(p, 8, "data_size")
			case ref.OpAttachmentIndex:
				add(b, 8, "offset")
				add(b+8, 8, "length")
				add(b+32, 8, "data_size")
				p := str(b+40, "name")
				str(p, "media_type")
			case ref.OpStatistics:
				add(b, 8, "message_count")
				add(b+22, 4, "chunk_count")
				add(b+42, 4, "channel_message_counts_length")
			case ref.OpMetadata:
				p := str(b, "name")
				add(p, 4, "metadata_length")
			case ref.OpMetadataIndex:
				add(b, 8, "offset")
				add(b+8, 8, "length")
				str(b+16, "name")
			case ref.OpSummaryOffset:
				add(b, 1, "group_opcode")
				add(b+1, 8, "group_start")
				add(b+9, 8, "group_length")
			}
		}
	}
	walk(s.dec.Recs, 0, "")
	return out
}

// siblings: every length/size/offset/count field set to each value the same field has in another
// record of the same kind (one chunk declaring another chunk's size, one index entry pointing at
// another entry's record): values that are plausible for the file, which no fixed hostile set contains.
func (f structFamily) siblings() []func() ([]byte, string) {
	var out []func() ([]byte, string)
	s := f.seed
	fields := sizeFields(s)
	type key struct {
		field string
		w     int
		op    string
	}
	groups := map[key][]c10Field{}
	opOf := func(fl c10Field) string { // the record kind is the first word of the description
		for i := 0; i < len(fl.what); i++ {
			if fl.what[i] == '.' {
				return fl.what[:i]
			}
		}
		return fl.what
	}
	for _, fl := range fields {
		name := fl.field
		if i := strings.Index(name, "["); i >= 0 { // array entries of one field form one group
			if j := strings.Index(name, "]"); j > i {
				name = name[:i] + name[j+1:]
			}
		}
		k := key{name, fl.w, opOf(fl)}
		groups[k] = append(groups[k], fl)
	}
	for _, fl := range fields {
		name := fl.field
		if i := strings.Index(name, "["); i >= 0 {
			if j := strings.Index(name, "]"); j > i {
				name = name[:i] + name[j+1:]
			}
		}
		cur := getLE(s.bytes[fl.off:], fl.w)
		seen := map[uint64]bool{cur: true}
		for _, other := range groups[key{name, fl.w, opOf(fl)}] {
			v := getLE(s.bytes[other.off:], other.w)
			if seen[v] {
				continue
			}
			seen[v] = true
			fl, v := fl, v
			out = append(out, func() ([]byte, string) {
				b := append([]byte(nil), s.bytes...)
				putLE(b[fl.off:], fl.w, v)
				return b, fmt.Sprintf("%s: %d -> %d (the value of the same field in another record)", fl.what, cur, v)
			})
		}
	}
	return out
}

// oversized: every 32-bit length field set to 2^26 (64 MiB: far above any configured limit, far
// below the 2 GiB ceiling) while the length of its record is set to 2^40 - the one pair of fields
// whose bounds depend on each other in every parser ("the inner length fits the record").
func (f structFamily) oversized() []func() ([]byte, string) {
	var out []func() ([]byte, string)
	s := f.seed
	fields := sizeFields(s)
	recLenOf := map[string]c10Field{} // "<op> at <off>" -> its record_length field
	keyOf := func(fl c10Field) string {
		if i := strings.Index(fl.what, " of the record at "); i >= 0 {
			return fl.what[i:]
		}
		return fl.what
	}
	for _, fl := range fields {
		if fl.field == "record_length" {
			recLenOf[keyOf(fl)] = fl
		}
	}
	for _, fl := range fields {
		rl, ok := recLenOf[keyOf(fl)]
		if fl.w != 4 || !ok {
			continue
		}
		for _, big := range []uint64{1 << 26, 1<<26 + 1<<20} {
			for _, rlen := range []uint64{1 << 40, 1<<26 + 1<<21} {
				fl, rl, big, rlen := fl, rl, big, rlen
				out = append(out, func() ([]byte, string) {
					b := append([]byte(nil), s.bytes...)
					putLE(b[fl.off:], 4, big)
					putLE(b[rl.off:], 8, rlen)
					return b, fmt.Sprintf("%s -> %d and its record length -> %d", fl.what, big, rlen)
				})
			}
		}
	}
	return out
}

var hostile2 = map[int][]uint64{
	1: {0, 0xff},
	2: {0, 0xffff},
	4: {0, 1 << 31, math.MaxUint32},
	8: {0, 1 << 31, 1 << 63, math.MaxUint64},
}

// pairFamily: every unordered pair of size fields x every pair of values out of a reduced hostile
// set (plus v+1 and v-1): the depth-2 mutations a single overwritten field cannot reach (an offset
// and the length that is checked against it, a count and the size of the array it counts).
type pairFamily struct {
	seed   *c10Seed
	fields []c10Field
	pairs  [][2]int
}

func newPairFamily(s *c10Seed) *pairFamily {
	f := &pairFamily{seed: s, fields: sizeFields(s)}
	for i := range f.fields {
		for j := i + 1; j < len(f.fields); j++ {
			f.pairs = append(f.pairs, [2]int{i, j})
		}
	}
	return f
}

func (f *pairFamily) nvals(w int) int { return len(hostile2[w]) + 2 }
func (f *pairFamily) count() int {
	n := 0
	for _, p := range f.pairs {
		n += f.nvals(f.fields[p[0]].w) * f.nvals(f.fields[p[1]].w)
	}
	return n
}
func (f *pairFamily) value(fl c10Field, k int) uint64 {
	cur := getLE(f.seed.bytes[fl.off:], fl.w)
	h := hostile2[fl.w]
	var v uint64
	switch {
	case k < len(h):
		v = h[k]
	case k == len(h):
		v = cur - 1
	default:
		v = cur + 1
	}
	if fl.w < 8 {
		v &= 1<<(8*uint(fl.w)) - 1
	}
	return v
}

// index i -> (pair, value a, value b); pairs are stored with cumulative counts for O(log n) lookup
func (f *pairFamily) mutant(i int) ([]byte, string) {
	for _, p := range f.pairs { // linear walk is fine: workers call this once per input and pairs are < 1e5
		a, b := f.fields[p[0]], f.fields[p[1]]
		n := f.nvals(a.w) * f.nvals(b.w)
		if i >= n {
			i -= n
			continue
		}
		va, vb := f.value(a, i/f.nvals(b.w)), f.value(b, i%f.nvals(b.w))
		ca, cb := getLE(f.seed.bytes[a.off:], a.w), getLE(f.seed.bytes[b.off:], b.w)
		if va == ca || vb == cb {
			return nil, "" // not a depth-2 mutant (covered by depth 1)
		}
		out := append([]byte(nil), f.seed.bytes...)
		putLE(out[a.off:], a.w, va)
		putLE(out[b.off:], b.w, vb)
		return out, fmt.Sprintf("%s: %d -> %d and %s: %d -> %d", a.what, ca, va, b.what, cb, vb)
	}
	return nil, ""
}
